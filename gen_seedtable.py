#!/usr/bin/env python3
"""Writes the table of section 10 of DESIGN.md from /verif/seeded/*/meta.json."""
import json, os, re
rows = []
for d in sorted(os.listdir('/verif/seeded')):
    p = f'/verif/seeded/{d}/meta.json'
    if not os.path.exists(p):
        continue
    m = json.load(open(p))
    caught = m.get('caught_by', m.get('checks_quick', ''))
    rows.append((d, m.get('breaks_property', m.get('property', '?')), m.get('site', ''), m.get('needs_to_manifest', ''), caught, m.get('history', '')))
out = ["| seed | breaks | needs to manifest | result of the registered quick check(s) | note |", "|---|---|---|---|---|"]
for d, prop, site, needs, caught, hist in rows:
    out.append(f"| `seeded/{d}` | {prop} | {needs} | {caught} | {hist} |")
table = "\n".join(out)
s = open('/verif/DESIGN.md').read()
if 'SEEDTABLE' in s:
    s = s.replace('SEEDTABLE', '<!-- seedtable -->\n' + table + '\n<!-- /seedtable -->')
else:
    s = re.sub(r'<!-- seedtable -->.*?<!-- /seedtable -->', '<!-- seedtable -->\n' + table + '\n<!-- /seedtable -->', s, flags=re.S)
open('/verif/DESIGN.md', 'w').write(s)
print(len(rows), 'seeds')
