#!/bin/bash
# Optional: runs vam's OWN test suite (not part of the pinned baseline: it cannot link in this sandbox as shipped).
# Uses the stub libvulkan, a -modfile that resolves memutils to /repo/memutils, and blanks out full_bench_test.go
# (it imports the root package vkngwrapper/core/v3, which does not compile here). Used to double-check fix commits.
set -e
cd "$(dirname "$0")"
[ -f build/libvulkan.so ] || ./setup.sh >/dev/null
K=$(mktemp -d /var/tmp/vamkit.XXXX)
trap 'rm -rf $K' EXIT
cp /repo/vam/go.mod $K/alt.mod
echo "replace github.com/vkngwrapper/arsenal/memutils => /repo/memutils" >> $K/alt.mod
cat /repo/vam/go.sum /repo/memutils/go.sum > $K/alt.sum
echo "package vam_test" > $K/empty_test.go
echo "{\"Replace\":{\"/repo/vam/full_bench_test.go\":\"$K/empty_test.go\"}}" > $K/overlay.json
export PATH=/opt/veriftools/go1.26.8/bin:$PATH GOPROXY=off GOSUMDB=off GOTOOLCHAIN=local
cd /repo/vam
CGO_LDFLAGS="-L/verif/build -Wl,-rpath,/verif/build" GOFLAGS="-mod=mod -modfile=$K/alt.mod" go test -vet=off -count=1 -overlay $K/overlay.json ./...
