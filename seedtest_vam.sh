#!/bin/bash
# seedtest_vam.sh <id> <worktree> <test-run-regex> "<check ids>"
# Like seedtest.sh for seeded changes to the vam module: confirms the change in its scratch worktree (memutils suite
# and vam's own suite pass with it; the demonstration vam/zz_demo_test.go fails with it and passes without it),
# stores it under /verif/seeded/<id>/, then runs the given checks against the changed worktree (VERIF_REPO) or,
# with ONREPO=1, against /repo itself (apply, run, revert).
set -u
id=$1; wt=$2; rx=$3; checks=$4
export PATH=/opt/veriftools/go1.26.8/bin:$PATH GOPROXY=off GOSUMDB=off GOTOOLCHAIN=local
seed=/verif/seeded/$id; mkdir -p $seed
cp $wt/_seed/patch.diff $seed/patch.diff
cp $wt/_seed/zz_demo_test.go $seed/ 2>/dev/null || cp $wt/_seed/*_test.go $seed/
cp $wt/_seed/notes.md $seed/notes.md 2>/dev/null
demo=$(ls $seed/*_test.go | head -1)
cd $wt && git checkout -q -- . && rm -f vam/zz_demo_test.go
git apply $seed/patch.diff || { echo "PATCH DOES NOT APPLY"; exit 1; }
suite=$( (cd memutils && GOFLAGS=-mod=mod go test -vet=off -count=1 ./... 2>&1) | grep -c "^ok" )
vsuite=$( $wt/_kit/vamtest.sh ./... 2>&1 | grep -c "^ok" )
vfail=$( $wt/_kit/vamtest.sh ./... 2>&1 | grep -c "^FAIL\|^--- FAIL" )
cp $demo $wt/vam/zz_demo_test.go
with=$( $wt/_kit/vamtest.sh -run "$rx" . 2>&1 | tail -1 )
git checkout -q -- .
without=$( $wt/_kit/vamtest.sh -run "$rx" . 2>&1 | tail -1 )
rm -f $wt/vam/zz_demo_test.go
echo "memutils ok-packages=$suite vam ok-packages=$vsuite vam failures=$vfail | demo with change: $with | demo without: $without"
cd $wt && git apply $seed/patch.diff
target=$wt
if [ "${ONREPO:-0}" = 1 ]; then
  cd /repo && git status --short | grep -q . && { echo "/repo not clean"; exit 1; }
  git -C /repo apply $seed/patch.diff || { echo "patch does not apply to /repo"; exit 1; }
  target=/repo
fi
res=""
for c in $checks; do
  ev=$(mktemp -d /var/tmp/seedev.XXXX)
  out=$(cd /verif && VERIF_REPO=$target VERIF_EVIDENCE_DIR=$ev timeout 2400 ./check $c quick 2>&1)
  rc=$?
  v=$(echo "$out" | grep -c "^VIOLATION")
  res="$res $c:rc=$rc,violations=$v"
  echo "$out" | grep "^VIOLATION\|^  entry\|^INCONCLUSIVE" | head -6
  rm -rf $ev
done
[ "${ONREPO:-0}" = 1 ] && git -C /repo checkout -- .
cd $wt && git checkout -q -- .
echo "RESULT $id:$res"
python3 - "$id" "$suite" "$vsuite" "$vfail" "$with" "$without" "$res" "$rx" <<'PY'
import json,sys
id,suite,vs,vf,w,wo,res,rx=sys.argv[1:]
meta={"id":id,"property":id.split('-')[0].replace('v',''),"existing_suites_with_change":{"memutils_ok_packages":int(suite),"vam_ok_packages":int(vs),"vam_failures":int(vf)},
 "demo_with_change":w,"demo_without_change":wo,"demo_location":"vam/zz_demo_test.go","demo_run":"_kit/vamtest.sh -run '%s' . (see runtests_vam.sh for the environment)"%rx,"checks_quick":res.strip()}
p='/verif/seeded/%s/meta.json'%id
try: old=json.load(open(p))
except Exception: old={}
old.update(meta); json.dump(old,open(p,'w'),indent=1)
PY
