//go:build verif_harness

package vam

import (
	"io"
	"log/slog"
	"strings"

	"github.com/vkngwrapper/arsenal/vam/internal/vulkan"
	"github.com/vkngwrapper/core/v3/core1_0"
)

// Allocator-level harness: a real Allocator (vam.New) on the simulated device; histories of public API calls
// with symbolic sizes / alignments; ground truth comes from the simulated device and the harness' own record
// of live allocations.

type vAlloc struct {
	a         *Allocation
	reqSize   int
	reqAlign  int
	typeBits  uint32 // memory types the request permits
	pool      *Pool
	dedicated bool // requested (flag) as dedicated
	mappedReq bool // requested persistently mapped
	mapAllow  bool
	userMaps  int
	ud        *int
	minAlign  int // minimum alignment configured for the pool the allocation came from (0: none)
}

type vWorld struct {
	dev   *simDevice
	al    *Allocator
	live  []*vAlloc
	pools []*Pool
	prop  int

	heapLimits []int
	maxAllocs  int
	gran, atom int
}

const (
	tDeviceLocal = 0 // heap 0
	tHostCoh     = 1 // heap 1, host visible + coherent
	tHostNonCoh  = 2 // heap 1, host visible + cached, not coherent
)

// newWorld: layout of the simulated device.
//
//	heap 0: 2048 bytes (preferred block 256)   type 0: DEVICE_LOCAL
//	heap 1: 8192 bytes (preferred block 1024)  type 1: HOST_VISIBLE|HOST_COHERENT, type 2: HOST_VISIBLE|HOST_CACHED
//	variant bit 0: bufferImageGranularity 1 / 1024      bit 1: nonCoherentAtomSize 1 / 64
//	variant bit 2: heap size limits {512, 1024}         bit 3: maxMemoryAllocationCount 2
//	variant bit 4: a fourth memory type with DEVICE_COHERENT_AMD (excluded: the extension is not enabled)
func newWorld(prop int, variant int) *vWorld { return newWorldH(prop, variant, 2048) }

// newWorldH: as newWorld with a chosen size of heap 0.
func newWorldH(prop int, variant int, heap0 int) *vWorld {
	w := &vWorld{prop: prop, gran: 1, atom: 1, maxAllocs: 4096}
	if variant&1 != 0 {
		w.gran = 1024
	}
	if variant&2 != 0 {
		w.atom = 64
	}
	types := []core1_0.MemoryType{
		{PropertyFlags: core1_0.MemoryPropertyDeviceLocal, HeapIndex: 0},
		{PropertyFlags: core1_0.MemoryPropertyHostVisible | core1_0.MemoryPropertyHostCoherent, HeapIndex: 1},
		{PropertyFlags: core1_0.MemoryPropertyHostVisible | core1_0.MemoryPropertyHostCached, HeapIndex: 1},
	}
	if variant&16 != 0 {
		types = append(types, core1_0.MemoryType{PropertyFlags: core1_0.MemoryPropertyDeviceLocal | core1_0.MemoryPropertyFlags(fCoherentAMD), HeapIndex: 0})
	}
	if variant&8 != 0 {
		w.maxAllocs = 2
	}
	w.dev = newSim(simCfg{types: types, heaps: []core1_0.MemoryHeap{{Size: heap0}, {Size: 8192}},
		granularity: w.gran, atom: w.atom, maxAllocs: w.maxAllocs})
	opts := CreateOptions{}
	if variant&4 != 0 {
		w.heapLimits = []int{512, 1024}
		opts.HeapSizeLimits = []int{512, 1024}
	} else {
		w.heapLimits = []int{0, 0}
	}
	logger := slog.New(slog.NewTextHandler(io.Discard, nil))
	al, err := New(logger, w.dev, w.dev.pd, opts)
	verifAssume(err == nil)
	w.al = al
	verifDebugInfo = func() string { return strings.Join(w.dev.vu, "; ") }
	return w
}

func (w *vWorld) heapOfType(t int) int { return w.dev.inst.memProps.MemoryTypes[t].HeapIndex }

// ---- ground-truth oracles ----------------------------------------------------------------------

// oracleC02: every live Allocation denotes an exclusive, valid range of live device memory.
func (w *vWorld) oracleC02(label string) {
	ok := true
	offs := make([]int, len(w.live))
	mems := make([]*simMem, len(w.live))
	for i, v := range w.live {
		m := w.dev.memOf(v.a.Memory())
		mems[i] = m
		ok = verifAnd(ok, m != nil)
		if m == nil {
			continue
		}
		ok = verifAnd(ok, m.live)
		ok = verifAnd(ok, v.typeBits&(1<<uint(m.typeIndex)) != 0)
		ok = verifAnd(ok, m.typeIndex == v.a.MemoryTypeIndex())
		off := v.a.FindOffset()
		offs[i] = off
		ok = verifAnd(ok, off >= 0)
		ok = verifAnd(ok, v.a.Size() >= v.reqSize)
		ok = verifAnd(ok, off+v.a.Size() <= m.size)
		ok = verifAnd(ok, off&(v.reqAlign-1) == 0)
		if v.a.allocationType == allocationTypeBlock {
			minAlign := 1
			fl := w.dev.inst.memProps.MemoryTypes[m.typeIndex].PropertyFlags
			if fl&core1_0.MemoryPropertyHostVisible != 0 && fl&core1_0.MemoryPropertyHostCoherent == 0 {
				minAlign = w.atom // the pool's minimum alignment for non-coherent host-visible memory
			}
			ok = verifAnd(ok, off&(minAlign-1) == 0)
			if v.minAlign > 1 {
				ok = verifAnd(ok, off&(v.minAlign-1) == 0)
			}
		} else {
			ok = verifAnd(ok, off == 0)
		}
	}
	for i := range w.live {
		for j := i + 1; j < len(w.live); j++ {
			if mems[i] == nil || mems[i] != mems[j] {
				continue
			}
			if w.live[i].a.allocationType == allocationTypeDedicated || w.live[j].a.allocationType == allocationTypeDedicated {
				ok = false // a dedicated allocation shares its memory object
				continue
			}
			ok = verifAnd(ok, verifOr(offs[i]+w.live[i].a.Size() <= offs[j], offs[j]+w.live[j].a.Size() <= offs[i]))
		}
	}
	verifAssert(label, ok)
}

type truth struct {
	blockCount, blockBytes, allocCount, allocBytes int
	minA, maxA                                     int
}

func (w *vWorld) truthFor(sel func(typeIndex int) bool) truth {
	t := truth{minA: int(^uint(0) >> 1)}
	for _, m := range w.dev.mems {
		if m.live && sel(m.typeIndex) {
			t.blockCount++
			t.blockBytes += m.size
		}
	}
	for _, v := range w.live {
		if sel(v.a.MemoryTypeIndex()) {
			t.allocCount++
			s := v.a.Size()
			t.allocBytes += s
			t.minA = verifIte(s < t.minA, s, t.minA)
			t.maxA = verifIte(s > t.maxA, s, t.maxA)
		}
	}
	return t
}

// oracleC04: statistics and heap budget equal device ground truth.
func (w *vWorld) oracleC04(label string) {
	var st AllocatorStatistics
	var err error
	p := verifCatch(func() { err = w.al.CalculateStatistics(&st) })
	verifAssert(label+"/statistics-computable", verifAnd(!p, err == nil))
	if p || err != nil {
		return
	}
	ok := true
	nTypes := len(w.dev.inst.memProps.MemoryTypes)
	cmp := func(d *truth, blockCount, blockBytes, allocCount, allocBytes, minA, maxA int) {
		ok = verifAnd(ok, blockCount == d.blockCount)
		ok = verifAnd(ok, blockBytes == d.blockBytes)
		ok = verifAnd(ok, allocCount == d.allocCount)
		ok = verifAnd(ok, allocBytes == d.allocBytes)
		if d.allocCount > 0 {
			ok = verifAnd(ok, minA == d.minA)
			ok = verifAnd(ok, maxA == d.maxA)
		}
	}
	for ti := 0; ti < nTypes; ti++ {
		tr := w.truthFor(func(x int) bool { return x == ti })
		s := &st.MemoryTypes[ti]
		cmp(&tr, s.BlockCount, s.BlockBytes, s.AllocationCount, s.AllocationBytes, s.AllocationSizeMin, s.AllocationSizeMax)
	}
	for h := 0; h < len(w.dev.inst.memProps.MemoryHeaps); h++ {
		tr := w.truthFor(func(x int) bool { return w.heapOfType(x) == h })
		s := &st.MemoryHeaps[h]
		cmp(&tr, s.BlockCount, s.BlockBytes, s.AllocationCount, s.AllocationBytes, s.AllocationSizeMin, s.AllocationSizeMax)
		var b vulkan.Budget
		w.al.deviceMemory.HeapBudget(h, &b)
		ok = verifAnd(ok, b.Statistics.BlockCount == tr.blockCount)
		ok = verifAnd(ok, b.Statistics.BlockBytes == tr.blockBytes)
		ok = verifAnd(ok, b.Statistics.AllocationCount == tr.allocCount)
		ok = verifAnd(ok, b.Statistics.AllocationBytes == tr.allocBytes)
		ok = verifAnd(ok, b.Usage == tr.blockBytes)
	}
	tr := w.truthFor(func(x int) bool { return true })
	cmp(&tr, st.Total.BlockCount, st.Total.BlockBytes, st.Total.AllocationCount, st.Total.AllocationBytes, st.Total.AllocationSizeMin, st.Total.AllocationSizeMax)
	verifAssert(label+"/statistics-and-budget-equal-device-truth", ok)
}

// oracleC11: configured limits are respected.
func (w *vWorld) oracleC11(label string) {
	ok := true
	for h, lim := range w.heapLimits {
		if lim != 0 {
			ok = verifAnd(ok, w.dev.liveBytesOfHeap(h) <= lim)
		}
	}
	ok = verifAnd(ok, w.dev.liveMemCount() <= w.maxAllocs)
	for _, p := range w.pools {
		ok = verifAnd(ok, p.blockList.BlockCount() >= p.blockList.minBlockCount)
		ok = verifAnd(ok, p.blockList.BlockCount() <= p.blockList.maxBlockCount)
	}
	verifAssert(label, ok)
}

func (w *vWorld) check(tag string) {
	switch w.prop {
	case 2:
		w.oracleC02("C02/" + tag)
	case 4:
		w.oracleC04("C04/" + tag)
	case 11:
		w.oracleC11("C11/" + tag)
	}
}

// snapshotTruth: what must not change when an operation is refused (C13) or fails (C10).
type worldSnap struct {
	liveMems  int
	liveBytes int
	nLive     int
	offs      []int
	mems      []*simMem
	st        truth
}

func (w *vWorld) snap() worldSnap {
	s := worldSnap{liveMems: w.dev.liveMemCount(), nLive: len(w.live)}
	for _, m := range w.dev.mems {
		if m.live {
			s.liveBytes += m.size
		}
	}
	for _, v := range w.live {
		s.offs = append(s.offs, v.a.FindOffset())
		s.mems = append(s.mems, w.dev.memOf(v.a.Memory()))
	}
	var b0, b1 vulkan.Budget
	w.al.deviceMemory.HeapBudget(0, &b0)
	w.al.deviceMemory.HeapBudget(1, &b1)
	s.st = truth{blockCount: b0.Statistics.BlockCount + b1.Statistics.BlockCount, blockBytes: b0.Statistics.BlockBytes + b1.Statistics.BlockBytes,
		allocCount: b0.Statistics.AllocationCount + b1.Statistics.AllocationCount, allocBytes: b0.Statistics.AllocationBytes + b1.Statistics.AllocationBytes}
	return s
}

func sameWorld(a, b worldSnap) bool {
	if a.nLive != b.nLive || len(a.offs) != len(b.offs) {
		return false
	}
	ok := verifAnd(a.liveMems == b.liveMems, a.liveBytes == b.liveBytes)
	for i := range a.offs {
		ok = verifAnd(ok, a.offs[i] == b.offs[i])
		ok = verifAnd(ok, a.mems[i] == b.mems[i])
	}
	ok = verifAnd(ok, a.st.blockCount == b.st.blockCount)
	ok = verifAnd(ok, a.st.blockBytes == b.st.blockBytes)
	ok = verifAnd(ok, a.st.allocCount == b.st.allocCount)
	ok = verifAnd(ok, a.st.allocBytes == b.st.allocBytes)
	return ok
}

// ---- operations --------------------------------------------------------------------------------

type allocVariant struct {
	name     string
	flags    AllocationCreateFlags
	required core1_0.MemoryPropertyFlags
	typeBits uint32 // MemoryRequirements.MemoryTypeBits
}

var allocVariants = []allocVariant{
	{"device-local", 0, core1_0.MemoryPropertyDeviceLocal, 0xF},
	{"host-coherent", 0, core1_0.MemoryPropertyHostVisible | core1_0.MemoryPropertyHostCoherent, 0xF},
	{"host-noncoherent-mapped", AllocationCreateMapped, core1_0.MemoryPropertyHostVisible | core1_0.MemoryPropertyHostCached, 0xF},
	{"dedicated-device-local", AllocationCreateDedicatedMemory, core1_0.MemoryPropertyDeviceLocal, 0xF},
	{"never-allocate-host", AllocationCreateNeverAllocate, core1_0.MemoryPropertyHostVisible, 0x6},
	{"any-type-min-offset", AllocationCreateStrategyMinOffset, 0, 0xF},
}

func (w *vWorld) symReq(maxSize int) (int, int) {
	size := verifNondetInt("size")
	verifAssume(size >= 1)
	verifAssume(size <= maxSize)
	k := verifNondetInt("alignLog")
	verifAssume(k >= 0)
	verifAssume(k <= 7)
	align := 1
	for i := 1; i <= 7; i++ {
		align = verifIte(k == i, 1<<i, align)
	}
	return size, align
}

// allocate performs Allocator.AllocateMemory (count==1) or AllocateMemorySlice (count>1).
func (w *vWorld) allocate(variant int, pool *Pool, count int, maxSize int) {
	verifOp()
	av := allocVariants[variant]
	size, align := w.symReq(maxSize)
	reqs := core1_0.MemoryRequirements{Size: size, Alignment: align, MemoryTypeBits: av.typeBits}
	info := AllocationCreateInfo{Flags: av.flags, RequiredFlags: av.required, Pool: pool}
	before := w.snap()
	allocCallsBefore := w.dev.allocCalls
	allocs := make([]Allocation, count)
	var err error
	panicked := verifCatch(func() {
		if count == 1 {
			_, err = w.al.AllocateMemory(&reqs, info, &allocs[0])
		} else {
			_, err = w.al.AllocateMemorySlice(&reqs, info, allocs)
		}
	})
	if w.prop == 13 {
		verifAssert("C13/vam/allocate-does-not-panic", !panicked)
	}
	if panicked {
		verifAssume(w.prop == 13) // panics are C13's subject; other properties' harnesses stop here
		return
	}
	if w.prop == 11 && av.flags&AllocationCreateNeverAllocate != 0 {
		verifAssert("C11/never-allocate-makes-no-device-allocation", w.dev.allocCalls == allocCallsBefore)
	}
	if err != nil {
		if w.prop == 13 {
			verifAssert("C13/vam/refusal-changes-nothing", sameWorld(before, w.snap()))
			ok := true
			for i := range allocs {
				ok = verifAnd(ok, allocs[i].memory == nil)
			}
			verifAssert("C13/vam/refused-allocations-stay-unallocated", ok)
		}
		return
	}
	typeBits := av.typeBits
	// eligible types: permitted by the requirements and carrying the required flags
	elig := uint32(0)
	for ti, mt := range w.dev.inst.memProps.MemoryTypes {
		if typeBits&(1<<uint(ti)) != 0 && mt.PropertyFlags&av.required == av.required {
			elig |= 1 << uint(ti)
		}
	}
	if pool != nil {
		elig = 1 << uint(pool.blockList.memoryTypeIndex)
	}
	for i := range allocs {
		v := &vAlloc{a: &allocs[i], reqSize: size, reqAlign: align, typeBits: elig, pool: pool,
			dedicated: av.flags&AllocationCreateDedicatedMemory != 0, mappedReq: av.flags&AllocationCreateMapped != 0}
		w.live = append(w.live, v)
		if w.prop == 11 && v.dedicated {
			m := w.dev.memOf(v.a.Memory())
			ok := m != nil
			if m != nil {
				ok = verifAnd(ok, m.size == size)
				ok = verifAnd(ok, v.a.FindOffset() == 0)
				for _, o := range w.live {
					if o != v && w.dev.memOf(o.a.Memory()) == m {
						ok = false
					}
				}
			}
			verifAssert("C11/dedicated-request-gets-its-own-object-of-the-requested-size", ok)
		}
	}
}

func (w *vWorld) free(i int) {
	verifOp()
	v := w.live[i]
	var err error
	panicked := verifCatch(func() { err = v.a.Free() })
	if w.prop == 13 {
		verifAssert("C13/vam/free-does-not-panic", !panicked)
	}
	if panicked {
		verifAssume(w.prop == 13)
		return
	}
	if w.prop == 2 || w.prop == 20 {
		verifAssert("C"+pname(w.prop)+"/free-of-live-allocation-succeeds", err == nil)
	}
	if err != nil {
		return
	}
	nl := make([]*vAlloc, 0, len(w.live))
	for j := range w.live {
		if j != i {
			nl = append(nl, w.live[j])
		}
	}
	w.live = nl
}

func pname(p int) string {
	switch p {
	case 2:
		return "02"
	case 4:
		return "04"
	case 10:
		return "10"
	case 11:
		return "11"
	case 13:
		return "13"
	case 14:
		return "14"
	case 20:
		return "20"
	case 8:
		return "08"
	case 7:
		return "07"
	case 15:
		return "15"
	}
	return "??"
}

type poolVariant struct {
	typeIndex int
	flags     PoolCreateFlags
	blockSize int
	minBlocks int
	maxBlocks int
}

var poolVariants = []poolVariant{
	{tHostCoh, 0, 512, 0, 2},
	{tDeviceLocal, 0, 256, 1, 2},
	{tHostNonCoh, PoolCreateLinearAlgorithm, 512, 0, 1},
	{tHostCoh, 0, 0, 0, 0},
}

func (w *vWorld) createPool(variant int) *Pool {
	verifOp()
	pv := poolVariants[variant]
	var pool *Pool
	var err error
	before := w.snap()
	panicked := verifCatch(func() {
		pool, _, err = w.al.CreatePool(PoolCreateInfo{MemoryTypeIndex: pv.typeIndex, Flags: pv.flags, BlockSize: pv.blockSize,
			MinBlockCount: pv.minBlocks, MaxBlockCount: pv.maxBlocks})
	})
	if w.prop == 13 {
		verifAssert("C13/vam/create-pool-does-not-panic", !panicked)
	}
	if panicked {
		verifAssume(w.prop == 13)
		return nil
	}
	if err != nil {
		if w.prop == 13 {
			verifAssert("C13/vam/refused-pool-creation-changes-nothing", sameWorld(before, w.snap()))
		}
		return nil
	}
	if w.prop == 20 {
		ok := true
		for _, p := range w.pools {
			ok = verifAnd(ok, p.ID() != pool.ID())
		}
		verifAssert("C20/distinct-pools-have-distinct-identities", ok)
	}
	w.pools = append(w.pools, pool)
	return pool
}

// history: K operations chosen from the vocabulary, oracle after each.
func (w *vWorld) history(K int, variants []int, withPools bool, multi bool) {
	w.historyPV(K, variants, withPools, multi, []int{0, 1, 2, 3})
}

func (w *vWorld) historyPV(K int, variants []int, withPools bool, multi bool, pvs []int) {
	for step := 0; step < K; step++ {
		nops := 1
		if len(w.live) > 0 {
			nops = 2
		}
		if withPools && len(w.pools) < 2 {
			nops = 3
		}
		switch verifChoice("op", nops) {
		case 0:
			v := variants[verifChoice("variant", len(variants))]
			var pool *Pool
			if len(w.pools) > 0 && verifChoice("usePool", 2) == 1 {
				pool = w.pools[verifChoice("pool", len(w.pools))]
			}
			count := 1
			if multi {
				count = 1 + verifChoice("count", 2)
			}
			w.allocate(v, pool, count, 300)
		case 1:
			if len(w.live) == 0 {
				continue
			}
			w.free(verifChoice("victim", len(w.live)))
		case 2:
			w.createPool(pvs[verifChoice("poolVariant", len(pvs))])
		}
		w.check("after-step")
	}
}
