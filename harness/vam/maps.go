//go:build verif_harness

package vam

import (
	"github.com/vkngwrapper/core/v3/core1_0"
)

// C08 / C14: mapping, hysteresis, flush ranges. Two (optionally three) allocations share one memory block of a
// host-visible type; scripted families of map/unmap and suballocation events drive the mapping hysteresis across
// its thresholds (7 events), then a final group of operations is checked against the simulated device.

type mapWorld struct {
	*vWorld
	ghostMaps  map[*simMem]int // persistent-map allocations + outstanding user maps per memory object
	fixedSizes bool
}

func (mw *mapWorld) memOfAlloc(v *vAlloc) *simMem { return mw.dev.memOf(v.a.Memory()) }

func (mw *mapWorld) allocMappable(name string, typeIndex int, persistent bool, maxSize int) *vAlloc {
	return mw.allocMappableIn(nil, name, typeIndex, persistent, maxSize)
}

func (mw *mapWorld) allocMappableIn(pool *Pool, name string, typeIndex int, persistent bool, maxSize int) *vAlloc {
	size := maxSize
	if !mw.fixedSizes {
		size = verifNondetInt(name + "Size")
		verifAssume(size >= 1)
		verifAssume(size <= maxSize)
	}
	flags := AllocationCreateHostAccessRandom
	if persistent {
		flags |= AllocationCreateMapped
	}
	reqs := core1_0.MemoryRequirements{Size: size, Alignment: 1, MemoryTypeBits: 1 << uint(typeIndex)}
	a := &Allocation{}
	var err error
	p := verifCatch(func() { _, err = mw.al.AllocateMemory(&reqs, AllocationCreateInfo{Flags: flags, Pool: pool}, a) })
	verifAssert("C"+pname(mw.prop)+"/map/allocation-does-not-panic", !p)
	if p || err != nil {
		return nil
	}
	v := &vAlloc{a: a, reqSize: size, reqAlign: 1, typeBits: 1 << uint(typeIndex), mappedReq: persistent, mapAllow: true, pool: pool}
	mw.live = append(mw.live, v)
	if persistent {
		mw.ghostMaps[mw.memOfAlloc(v)]++
	}
	return v
}

func (mw *mapWorld) freeAlloc(v *vAlloc) {
	m := mw.memOfAlloc(v)
	var err error
	p := verifCatch(func() { err = v.a.Free() })
	verifAssert("C"+pname(mw.prop)+"/map/free-does-not-panic", !p)
	if p || err != nil {
		return
	}
	if v.mappedReq {
		mw.ghostMaps[m]--
	}
	nl := make([]*vAlloc, 0, len(mw.live))
	for _, o := range mw.live {
		if o != v {
			nl = append(nl, o)
		}
	}
	mw.live = nl
}

// allocFixed: a mappable allocation of a concrete size (script filler).
func (mw *mapWorld) allocFixed(typeIndex int, size int) *vAlloc {
	reqs := core1_0.MemoryRequirements{Size: size, Alignment: 1, MemoryTypeBits: 1 << uint(typeIndex)}
	a := &Allocation{}
	var err error
	p := verifCatch(func() {
		_, err = mw.al.AllocateMemory(&reqs, AllocationCreateInfo{Flags: AllocationCreateHostAccessRandom}, a)
	})
	verifAssert("C"+pname(mw.prop)+"/map/allocation-does-not-panic", !p)
	if p || err != nil {
		return nil
	}
	v := &vAlloc{a: a, reqSize: size, reqAlign: 1, typeBits: 1 << uint(typeIndex), mapAllow: true}
	mw.live = append(mw.live, v)
	return v
}

// mapIt maps v and checks the returned pointer (C14).
func (mw *mapWorld) mapIt(v *vAlloc) bool {
	m := mw.memOfAlloc(v)
	var ptr uintptr
	var err error
	p := verifCatch(func() {
		up, _, e := v.a.Map()
		ptr, err = uintptr(up), e
	})
	verifAssert("C"+pname(mw.prop)+"/map/map-does-not-panic", !p)
	if p {
		return false
	}
	if err != nil {
		return false
	}
	v.userMaps++
	mw.ghostMaps[m]++
	if mw.prop == 14 {
		cur := mw.memOfAlloc(v)
		ok := cur != nil
		if cur != nil {
			ok = verifAnd(ok, cur.live)
			ok = verifAnd(ok, cur.mapped)
			ok = verifAnd(ok, ptr == uintptr(cur.base+v.a.FindOffset()))
			ok = verifAnd(ok, v.a.FindOffset()+v.a.Size() <= cur.size)
		}
		verifAssert("C14/mapped-pointer-addresses-the-allocation's-own-first-byte", ok)
	}
	return true
}

func (mw *mapWorld) unmapIt(v *vAlloc) {
	m := mw.memOfAlloc(v)
	var err error
	p := verifCatch(func() { err = v.a.Unmap() })
	verifAssert("C"+pname(mw.prop)+"/map/unmap-does-not-panic", !p)
	if p {
		return
	}
	if err == nil {
		v.userMaps--
		mw.ghostMaps[m]--
	}
	if mw.prop == 14 {
		verifAssert("C14/balanced-unmap-succeeds", err == nil)
	}
}

// after every event
func (mw *mapWorld) check(tag string) {
	switch mw.prop {
	case 8:
		verifAssert("C08/"+tag+"/only-valid-driver-calls", len(mw.dev.vu) == 0)
	case 14:
		ok := true
		for m, n := range mw.ghostMaps {
			if n > 0 {
				ok = ok && m.live && m.mapped
			}
		}
		verifAssert("C14/"+tag+"/memory-stays-mapped-while-someone-relies-on-it", ok)
	}
}

func (mw *mapWorld) flush(v *vAlloc, invalidate bool) {
	off := verifNondetInt("flushOffset")
	size := verifNondetInt("flushSize")
	verifAssume(off >= 0)
	verifAssume(off < v.a.Size())
	whole := verifChoice("flushWholeSize", 2) == 1
	validRegion := true
	if whole {
		size = -1
	} else {
		verifAssume(size >= 1)
		validRegion = size <= v.a.Size()-off // any positive size is a well-typed argument; regions past the end must be refused
	}
	mw.dev.lastRanges = nil
	var err error
	p := verifCatch(func() {
		if invalidate {
			_, err = v.a.Invalidate(off, size)
		} else {
			_, err = v.a.Flush(off, size)
		}
	})
	verifAssert("C08/flush/flush-does-not-panic", !p)
	if p {
		return
	}
	if !validRegion {
		verifAssert("C08/flush/region-past-the-end-of-the-allocation-is-refused", err != nil)
		return
	}
	if err != nil {
		return
	}
	// the flushed range never reaches into the bytes of another live allocation of the same memory object
	ok := true
	for _, r := range mw.dev.lastRanges {
		m := mw.dev.memOf(r.Memory)
		end := r.Offset + r.Size
		if r.Size == -1 && m != nil {
			end = m.size
		}
		for _, o := range mw.live {
			if o == v || mw.memOfAlloc(o) != m {
				continue
			}
			oo := o.a.FindOffset()
			ok = verifAnd(ok, verifOr(end <= oo, oo+o.a.Size() <= r.Offset))
		}
		// and covers what was asked for
		ao := v.a.FindOffset()
		ok = verifAnd(ok, r.Offset <= ao+off)
		if !whole {
			ok = verifAnd(ok, end >= ao+off+size)
		}
	}
	verifAssert("C08/flush/range-covers-the-request-and-no-other-live-allocation", ok)
}

// mapScript: cfg%32 device variant; cfg/32%2: memory type (0 coherent, 1 non-coherent); cfg/64%2: 0 = hysteresis script
// (map/unmap pairs, allocate/free pairs, final operations), 1 = flush/invalidate with symbolic ranges;
// cfg/128%2 = 1: the allocations live in a custom pool with 1000-byte blocks (not a multiple of the atom size).
func mapScript(prop int, cfg int) {
	w := newWorld(prop, cfg%32)
	mw := &mapWorld{vWorld: w, ghostMaps: map[*simMem]int{}}
	typeIndex := tHostCoh
	if (cfg/32)%2 == 1 {
		typeIndex = tHostNonCoh
	}
	persistentA := verifChoice("persistentA", 2) == 1
	var pool *Pool
	maxA, maxB := 200, 200
	if (cfg/128)%2 == 1 {
		// a custom pool whose block size (1000) is not a multiple of the atom size: ranges must be clamped to the block end
		var perr error
		pp := verifCatch(func() {
			pool, _, perr = w.al.CreatePool(PoolCreateInfo{MemoryTypeIndex: typeIndex, BlockSize: 1000, MaxBlockCount: 1})
		})
		verifAssume(!pp)
		verifAssume(perr == nil)
		w.pools = append(w.pools, pool)
		maxA, maxB = 600, 700
	}
	if (cfg/256)%2 == 1 {
		mw.fixedSizes = true // window-phase sweep: the sizes play no role, the event counts do
		maxA, maxB = 24, 40
	}
	a := mw.allocMappableIn(pool, "a", typeIndex, persistentA, maxA)
	b := mw.allocMappableIn(pool, "b", typeIndex, false, maxB)
	if a == nil || b == nil {
		return
	}
	verifAssume(mw.memOfAlloc(a) == mw.memOfAlloc(b))
	mw.check("after-setup")
	flushFocus := (cfg/64)%2 == 1
	if flushFocus {
		if verifChoice("mapFirst", 2) == 1 && mw.mapIt(a) {
			mw.unmapIt(a)
		}
		target := a
		if verifChoice("flushTarget", 2) == 1 {
			target = b
		}
		if mw.mapIt(target) {
			mw.flush(target, verifChoice("invalidate", 2) == 1)
			mw.check("final")
			mw.unmapIt(target)
		}
		mw.check("final")
		verifReach("end")
		return
	}
	// phase 1: p map/unmap pairs on a
	counts := []int{0, 4}
	if verifTier() == 1 {
		counts = []int{0, 3, 4}
	}
	if (cfg/256)%2 == 1 {
		// sweep of the phase of the mapping-hysteresis window: 0..6 further sub-allocations (kept alive) shift the
		// position of the 7-event window relative to the script, so that window boundaries fall on maps, unmaps,
		// allocations and frees in turn
		counts = []int{3, 4}
		phase := verifChoice("windowPhase", 7)
		for i := 0; i < phase; i++ {
			mw.allocFixed(typeIndex, 16)
		}
		mw.check("script")
	}
	pairs := counts[verifChoice("mapUnmapPairs", len(counts))]
	for i := 0; i < pairs; i++ {
		if mw.mapIt(a) {
			mw.check("script")
			mw.unmapIt(a)
		}
		mw.check("script")
	}
	// phase 2: q allocate/free pairs in the same block list
	cycles := counts[verifChoice("allocFreePairs", len(counts))]
	for i := 0; i < cycles; i++ {
		t := mw.allocFixed(typeIndex, 16)
		mw.check("script")
		if t != nil {
			mw.freeAlloc(t)
			mw.check("script")
		}
	}
	// phase 3: final operations
	switch verifChoice("final", 5) {
	case 0:
		if mw.mapIt(a) {
			mw.check("final")
			mw.unmapIt(a)
		}
	case 1:
		okA := mw.mapIt(a)
		mw.check("final")
		okB := mw.mapIt(b)
		mw.check("final")
		if okA {
			mw.unmapIt(a)
			mw.check("final")
		}
		if okB {
			mw.unmapIt(b)
		}
	case 2:
		if mw.mapIt(b) {
			mw.check("final")
			mw.freeAlloc(a)
			mw.check("final")
			mw.unmapIt(b)
		}
	case 3:
		mw.freeAlloc(a)
		mw.check("final")
		if mw.mapIt(b) {
			mw.check("final")
			mw.unmapIt(b)
		}
	case 4:
		c := mw.allocMappable("c", typeIndex, true, 64)
		mw.check("final")
		if c != nil && mw.mapIt(c) {
			mw.check("final")
			mw.unmapIt(c)
		}
	}
	mw.check("final")
	// teardown: everything is freed; nothing may stay mapped that nobody relies on being unmapped is not required,
	// but no invalid driver call may happen
	for len(mw.live) > 0 {
		n := len(mw.live)
		mw.freeAlloc(mw.live[0])
		if len(mw.live) == n {
			break
		}
	}
	mw.check("teardown")
	verifReach("end")
}

func Verif_C08_Maps(cfg int) { mapScript(8, cfg) }
func Verif_C14_Maps(cfg int) { mapScript(14, cfg) }

// Verif_C08_Kernels: full-width kernels of C08.
//
//	cfg 0: minimum alignment of a memory type: non-coherent host-visible => nonCoherentAtomSize, else 1 (symbolic flags, symbolic atom 2^k)
func Verif_C08_Kernels(cfg int) {
	f := verifNondetInt("typeFlags")
	verifAssume(f >= 0)
	verifAssume(f < 256)
	atom := gPow2("atomLog", 12)
	sim := newSim(simCfg{types: []core1_0.MemoryType{{PropertyFlags: core1_0.MemoryPropertyFlags(f), HeapIndex: 0}},
		heaps: []core1_0.MemoryHeap{{Size: 1 << 20}}, granularity: 1, atom: atom, maxAllocs: 4096})
	w := &vWorld{dev: sim}
	_ = w
	al, err := New(nil, sim, sim.pd, CreateOptions{})
	verifAssume(err == nil)
	got := int(al.deviceMemory.MemoryTypeMinimumAlignment(0))
	nonCoherent := verifAnd(f&fHostVisible != 0, f&0x04 == 0)
	verifAssert("C08/kernel/non-coherent-host-visible-types-get-atom-size-alignment", got == verifIte(nonCoherent, atom, 1))
	verifReach("end")
}
