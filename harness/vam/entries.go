//go:build verif_harness

package vam

var verifEntries = map[string]func(int){
	"Verif_C19_Select":   Verif_C19_Select,
	"Verif_C09_Pages":    Verif_C09_Pages,
	"Verif_C02_Hist":     Verif_C02_Hist,
	"Verif_C04_Hist":     Verif_C04_Hist,
	"Verif_C11_Hist":     Verif_C11_Hist,
	"Verif_C13_Hist":     Verif_C13_Hist,
	"Verif_C20_Teardown": Verif_C20_Teardown,
}
