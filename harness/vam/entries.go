//go:build verif_harness

package vam

var verifEntries = map[string]func(int){
	"Verif_C19_Select":     Verif_C19_Select,
	"Verif_C09_Pages":      Verif_C09_Pages,
	"Verif_C02_Hist":       Verif_C02_Hist,
	"Verif_C04_Hist":       Verif_C04_Hist,
	"Verif_C11_Hist":       Verif_C11_Hist,
	"Verif_C13_Hist":       Verif_C13_Hist,
	"Verif_C20_Teardown":   Verif_C20_Teardown,
	"Verif_C10_Faults":     Verif_C10_Faults,
	"Verif_C08_Maps":       Verif_C08_Maps,
	"Verif_C14_Maps":       Verif_C14_Maps,
	"Verif_C08_Kernels":    Verif_C08_Kernels,
	"Verif_C07_VDefrag":    Verif_C07_VDefrag,
	"Verif_C02_VDefrag":    Verif_C02_VDefrag,
	"Verif_C14_VDefrag":    Verif_C14_VDefrag,
	"Verif_C08_VDefrag":    Verif_C08_VDefrag,
	"Verif_C04_VDefrag":    Verif_C04_VDefrag,
	"Verif_C15_VDefrag":    Verif_C15_VDefrag,
	"Verif_C11_OverBudget": Verif_C11_OverBudget,
	"Verif_C11_FaultCount": Verif_C11_FaultCount,
	"Verif_C15_VReuse":     Verif_C15_VReuse,
	"Verif_C11_Race":       Verif_C11_Race,
	"Verif_C12_Pairs":      Verif_C12_Pairs,
	"Verif_C19_Fallback":   Verif_C19_Fallback,
}
