//go:build verif_harness

package vam

var verifEntries = map[string]func(int){
	"Verif_C19_Select": Verif_C19_Select,
	"Verif_C09_Pages":  Verif_C09_Pages,
}
