//go:build verif_harness

package vam

import (
	"github.com/vkngwrapper/core/v3/core1_0"
)

// C10: a failed operation leaves no trace. A short fault-free history is followed by one operation during which every
// fallible driver call may fail (the fault decision is a symbolic Boolean per call, at most `budget` faults).

func (w *vWorld) ownedMemCount() int {
	n := 0
	for _, bl := range w.al.memoryBlockLists {
		if bl != nil {
			n += bl.BlockCount()
		}
	}
	for _, p := range w.pools {
		n += p.blockList.BlockCount()
	}
	for _, v := range w.live {
		if v.a.allocationType == allocationTypeDedicated {
			n++
		}
	}
	return n
}

func (w *vWorld) emptySpareBlocksWithinBound() bool {
	ok := true
	count := func(bl *memoryBlockList) {
		empty := 0
		for _, b := range bl.blocks {
			if b.metadata.IsEmpty() {
				empty++
			}
		}
		lim := bl.minBlockCount
		if lim < 1 {
			lim = 1
		}
		ok = ok && empty <= lim
	}
	for _, bl := range w.al.memoryBlockLists {
		if bl != nil {
			count(bl)
		}
	}
	for _, p := range w.pools {
		count(&p.blockList)
	}
	return ok
}

func (w *vWorld) afterFailure(tag string, allocs []Allocation, before worldSnap) {
	unalloc := true
	for i := range allocs {
		unalloc = verifAnd(unalloc, allocs[i].memory == nil)
	}
	verifAssert("C10/"+tag+"/caller-allocations-left-unallocated", unalloc)
	// nothing leaked: every live device object is owned by a block list or a live dedicated allocation
	verifAssert("C10/"+tag+"/every-device-object-is-owned", w.dev.liveMemCount() == w.ownedMemCount())
	verifAssert("C10/"+tag+"/spare-empty-blocks-within-retention-bound", w.emptySpareBlocksWithinBound())
	// existing allocations untouched
	okLive := before.nLive == len(w.live)
	if okLive {
		for i, v := range w.live {
			okLive = verifAnd(okLive, v.a.FindOffset() == before.offs[i])
			okLive = verifAnd(okLive, w.dev.memOf(v.a.Memory()) == before.mems[i])
		}
	}
	verifAssert("C10/"+tag+"/existing-allocations-untouched", okLive)
	w.oracleC04("C10/" + tag + "/after-failure")
	w.oracleC04("C04/after-an-injected-failure") // the same equalities, reported under C04 when this harness runs for C04
	w.oracleC02("C10/" + tag + "/invariants-after-failure")
	verifAssert("C10/"+tag+"/no-invalid-driver-call", len(w.dev.vu) == 0)
	// the caller's objects are reusable: a fault-free allocation into them must be accepted
	w.dev.faults = false
	for i := range allocs {
		if allocs[i].memory != nil {
			continue
		}
		reqs := core1_0.MemoryRequirements{Size: 16, Alignment: 1, MemoryTypeBits: 0xF}
		var err error
		p := verifCatch(func() {
			_, err = w.al.AllocateMemory(&reqs, AllocationCreateInfo{RequiredFlags: core1_0.MemoryPropertyHostVisible | core1_0.MemoryPropertyHostCoherent}, &allocs[i])
		})
		// (on a device variant with heap size or object count limits the retry may legitimately be refused for lack
		// of room; then only "no panic" is required)
		limited := w.maxAllocs < 4096
		for _, l := range w.heapLimits {
			limited = limited || l != 0
		}
		verifAssert("C10/"+tag+"/caller-allocation-reusable", verifAnd(!p, verifOr(err == nil, limited)))
		if p || err != nil {
			return
		}
		w.live = append(w.live, &vAlloc{a: &allocs[i], reqSize: 16, reqAlign: 1, typeBits: 0x2})
	}
	w.oracleC04("C10/" + tag + "/after-reuse")
}

// Verif_C10_Faults: cfg%32 device variant; cfg/32: operation under fault injection
//
//	0: single block allocation   1: persistently mapped allocation (non-coherent type)   2: dedicated allocation
//	3: multi-allocation of 3     4: dedicated multi-allocation of 3, mapped              5: pool creation with 2 minimum blocks
//	6: CreateBuffer (create, allocate, bind)
//	7: Map of an allocation after 0..6 preceding map/unmap events (covers the call on which the mapping hysteresis flips)
func Verif_C10_Faults(cfg int) {
	w := newWorld(10, cfg%32)
	op := cfg / 32
	pre := 1
	if verifTier() == 1 {
		pre = 2
	}
	w.history(pre, []int{0, 1, 2, 3}, false, false)
	budget := 1
	if verifTier() == 1 || op >= 3 {
		budget = 2
	}
	if op == 7 {
		w.mapFaultScenario()
		return
	}
	w.dev.faults, w.dev.faultsLeft = true, budget
	before := w.snap()
	size, align := w.symReq(300)
	var err error
	var allocs []Allocation
	var panicked bool
	tag := "op"
	switch op {
	case 0, 1, 2, 3, 4:
		variant, count := 0, 1
		switch op {
		case 1:
			variant = 2
		case 2:
			variant = 3
		case 3:
			count = 3
		case 4:
			variant, count = 3, 3
		}
		av := allocVariants[variant]
		flags := av.flags
		required := av.required
		if op == 4 {
			flags |= AllocationCreateMapped
			required = core1_0.MemoryPropertyHostVisible | core1_0.MemoryPropertyHostCoherent
		}
		reqs := core1_0.MemoryRequirements{Size: size, Alignment: align, MemoryTypeBits: av.typeBits}
		info := AllocationCreateInfo{Flags: flags, RequiredFlags: required}
		allocs = make([]Allocation, count)
		panicked = verifCatch(func() {
			if count == 1 {
				_, err = w.al.AllocateMemory(&reqs, info, &allocs[0])
			} else {
				_, err = w.al.AllocateMemorySlice(&reqs, info, allocs)
			}
		})
		verifAssert("C10/op/failing-operation-returns-an-error-not-a-panic", !panicked)
		if panicked {
			return
		}
		if err == nil {
			elig := uint32(0)
			for ti, mt := range w.dev.inst.memProps.MemoryTypes {
				if av.typeBits&(1<<uint(ti)) != 0 && mt.PropertyFlags&required == required {
					elig |= 1 << uint(ti)
				}
			}
			for i := range allocs {
				w.live = append(w.live, &vAlloc{a: &allocs[i], reqSize: size, reqAlign: align, typeBits: elig})
			}
		}
	case 5:
		var pool *Pool
		panicked = verifCatch(func() {
			pool, _, err = w.al.CreatePool(PoolCreateInfo{MemoryTypeIndex: tHostCoh, BlockSize: 512, MinBlockCount: 2, MaxBlockCount: 3})
		})
		verifAssert("C10/op/failing-operation-returns-an-error-not-a-panic", !panicked)
		if panicked {
			return
		}
		if err == nil {
			w.pools = append(w.pools, pool)
		} else {
			verifAssert("C10/op/failed-pool-creation-returns-no-pool", pool == nil)
		}
	case 6:
		w.dev.nextReq = core1_0.MemoryRequirements{Size: size, Alignment: align, MemoryTypeBits: 0xF}
		allocs = make([]Allocation, 1)
		var buf core1_0.Buffer
		resBefore := len(w.dev.res)
		panicked = verifCatch(func() {
			buf, _, err = w.al.CreateBuffer(core1_0.BufferCreateInfo{Size: size, Usage: core1_0.BufferUsageVertexBuffer},
				AllocationCreateInfo{RequiredFlags: core1_0.MemoryPropertyDeviceLocal}, &allocs[0])
		})
		verifAssert("C10/op/failing-operation-returns-an-error-not-a-panic", !panicked)
		if panicked {
			return
		}
		if err == nil {
			w.live = append(w.live, &vAlloc{a: &allocs[0], reqSize: size, reqAlign: align, typeBits: 0x1})
			r := w.dev.resOfBuffer(buf)
			verifAssert("C10/op/created-buffer-is-bound-to-the-allocation", r != nil && r.live && r.boundTo == w.dev.memOf(allocs[0].Memory()))
		} else {
			// every buffer the operation created is destroyed again
			leaked := false
			for i := resBefore; i < len(w.dev.res); i++ {
				if w.dev.res[i].live {
					leaked = true
				}
			}
			verifAssert("C10/op/failed-create-buffer-destroys-the-buffer", !leaked)
		}
	}
	if err != nil {
		verifReach("operation-failed")
		w.afterFailure(tag, allocs, before)
	} else {
		verifReach("operation-succeeded")
		w.oracleC04("C10/op/after-success")
		w.oracleC02("C10/op/invariants-after-success")
		verifAssert("C10/op/no-invalid-driver-call", len(w.dev.vu) == 0)
	}
	verifReach("end")
}

// mapFaultScenario: k map/unmap pairs, then a Map whose vkMapMemory may fail. A failed Map must leave the allocation
// mappable: the next (fault-free) Map succeeds and returns the right pointer, and the driver was never asked to map
// mapped memory or unmap unmapped memory.
func (w *vWorld) mapFaultScenario() {
	mw := &mapWorld{vWorld: w, ghostMaps: map[*simMem]int{}}
	a := mw.allocFixed(tHostCoh, 64)
	if a == nil {
		return
	}
	pairs := verifChoice("mapUnmapPairsBefore", 4)
	for i := 0; i < pairs; i++ {
		if mw.mapIt(a) {
			mw.unmapIt(a)
		}
	}
	w.dev.faults, w.dev.faultsLeft = true, 1
	var err error
	p := verifCatch(func() { _, _, err = a.a.Map() })
	verifAssert("C10/map/failing-map-returns-an-error-not-a-panic", !p)
	if p {
		return
	}
	w.dev.faults = false
	if err == nil {
		verifAssert("C10/map/unmap-after-successful-map", a.a.Unmap() == nil)
		verifReach("operation-succeeded")
	} else {
		verifReach("operation-failed")
		var ptr uintptr
		var err2 error
		p = verifCatch(func() {
			up, _, e := a.a.Map()
			ptr, err2 = uintptr(up), e
		})
		ok := verifAnd(!p, err2 == nil)
		if !p && err2 == nil {
			m := w.dev.memOf(a.a.Memory())
			ok = verifAnd(ok, m != nil && m.mapped)
			if m != nil {
				ok = verifAnd(ok, ptr == uintptr(m.base+a.a.FindOffset()))
			}
			ok = verifAnd(ok, a.a.Unmap() == nil)
		}
		verifAssert("C10/map/allocation-still-mappable-after-a-failed-map", ok)
	}
	verifAssert("C10/map/no-invalid-driver-call", len(w.dev.vu) == 0)
	w.oracleC04("C10/map/after")
	verifReach("end")
}
