//go:build verif_harness

package vam

import (
	"github.com/vkngwrapper/arsenal/memutils/metadata"
)

// C09: conflicting resource kinds never share a buffer-image-granularity page. The real granularity handler of vam
// (blockBufferImageGranularity) drives the real TLSF / linear metadata, exactly as deviceMemoryBlock.Init wires them.

type gAlloc struct {
	h     metadata.BlockAllocationHandle
	kind  uint32
	size  int // requested
	align int
	ud    *int
}

// kindsConflict is written from the property statement: linear resources (buffers, linear images) versus
// optimal-tiling images, and allocations of unknown kind versus anything.
func kindsConflict(a, b uint32) bool {
	unknown := func(k uint32) bool {
		return k == uint32(SuballocationUnknown) || k == uint32(SuballocationImageUnknown)
	}
	linear := func(k uint32) bool { return k == uint32(SuballocationBuffer) || k == uint32(SuballocationImageLinear) }
	optimal := func(k uint32) bool { return k == uint32(SuballocationImageOptimal) }
	if unknown(a) || unknown(b) {
		return true
	}
	return (linear(a) && optimal(b)) || (optimal(a) && linear(b))
}

type gRegion struct {
	off, size int
	ud        any
	free      bool
}

func gRegions(m metadata.BlockMetadata) []gRegion {
	var regs []gRegion
	_ = m.VisitAllRegions(func(handle metadata.BlockAllocationHandle, offset int, size int, userData any, free bool) error {
		regs = append(regs, gRegion{offset, size, userData, free})
		return nil
	})
	return regs
}

func log2of(g int) uint {
	n := uint(0)
	for (1 << n) < g {
		n++
	}
	return n
}

func gPow2(name string, maxLog int) int {
	k := verifNondetInt(name)
	verifAssume(k >= 0)
	verifAssume(k <= maxLog)
	a := 1
	for i := 1; i <= maxLog; i++ {
		a = verifIte(k == i, 1<<i, a)
	}
	return a
}

// Verif_C09_Pages: cfg%2: 0 TLSF, 1 linear; cfg/2%3: granularity 16 (handler disabled, round-up path), 1024, 4096;
// cfg/6%2 = 1: page-boundary recipe (three buffers tile the block, one is freed) followed by one operation;
// cfg/12%2 = 1 (linear): double-stack script (lower request, upper request, one arbitrary operation).
func Verif_C09_Pages(cfg int) {
	linearAlg := cfg%2 == 1
	G := []int{16, 1024, 4096}[(cfg/2)%3]
	if (cfg/6)%2 == 1 && G == 1024 {
		G = 512 // the recipe uses the smallest granularity that enables the handler: fewer TLSF free lists to fork over
	}
	B := 2 * G
	if G == 16 {
		B = 256
	}
	sh := log2of(G)
	handler := &blockBufferImageGranularity{bufferImageGranularity: uint(G)}
	handler.Init(B)
	var m metadata.BlockMetadata
	if linearAlg {
		m = metadata.NewLinearBlockMetadata(G, handler)
	} else {
		m = metadata.NewTLSFBlockMetadata(G, handler)
	}
	m.Init(B)
	var live []gAlloc
	recipe := (cfg/6)%2 == 1
	if recipe {
		// page-boundary recipe: three buffers tile the block (symbolic sizes), one of them is freed, so that the
		// free range may start exactly on a page boundary with a conflicting allocation later in the same page
		used := 0
		for i := 0; i < 3; i++ {
			size := B - used // the third buffer takes the rest of the block
			if i < 2 {
				size = verifNondetInt("rsize")
				verifAssume(size >= 1)
				verifAssume(size <= B-used-(2-i))
				if i == 1 {
					verifAssume(size <= 256) // the buffer that is freed below: keeps the number of TLSF free lists to fork over small
				}
			}
			used += size
			ok, req, err := m.CreateAllocationRequest(size, 1, false, uint32(SuballocationBuffer), 0, int(^uint(0)>>1))
			verifAssume(err == nil)
			verifAssume(ok)
			ud := new(int)
			verifAssume(m.Alloc(req, uint32(SuballocationBuffer), ud) == nil)
			live = append(live, gAlloc{req.BlockAllocationHandle, uint32(SuballocationBuffer), size, 1, ud})
		}
		i := 1 // the middle buffer
		verifAssume(m.Free(live[i].h) == nil)
		nl := make([]gAlloc, 0, 2)
		for j := range live {
			if j != i {
				nl = append(nl, live[j])
			}
		}
		live = nl
	}
	K := 3
	if verifTier() == 1 {
		K = 4
	}
	if G > 16 || linearAlg {
		K-- // the large-granularity and linear configurations are an order of magnitude more expensive per step
	}
	if recipe {
		K = 1
	}
	// cfg/12%2 = 1 (linear only): double-stack script - the first operation is a lower request, the second an upper
	// request, the third is arbitrary (reaches an upper request squeezed between both stacks in three operations)
	script := (cfg/12)%2 == 1 && linearAlg
	if script {
		K = 3
	}
	for step := 0; step < K; step++ {
		nops := 1
		if len(live) > 0 {
			nops = 2
		}
		scripted := script && step < 2
		if !scripted && verifChoice("op", nops) == 1 {
			i := verifChoice("victim", len(live))
			panicked := verifCatch(func() {
				verifAssert("C09/free-of-live-allocation-succeeds", m.Free(live[i].h) == nil)
			})
			verifAssert("C09/free-does-not-panic", !panicked)
			verifAssert("C13/granularity/free-does-not-panic", !panicked)
			if panicked {
				return
			}
			nl := make([]gAlloc, 0, len(live))
			for j := range live {
				if j != i {
					nl = append(nl, live[j])
				}
			}
			live = nl
		} else {
			size := verifNondetInt("size")
			verifAssume(size >= 1)
			verifAssume(size <= B+G)
			align := 1
			if !recipe {
				align = gPow2("alignLog", int(sh)+1)
			}
			// quick: one representative per conflict class (unknown, linear, optimal); thorough: all five kinds
			kinds := []uint32{uint32(SuballocationUnknown), uint32(SuballocationBuffer), uint32(SuballocationImageOptimal)}
			if verifTier() == 1 {
				kinds = []uint32{1, 2, 3, 4, 5}
			}
			kind := kinds[verifChoice("kind", len(kinds))]
			upper := false
			if scripted {
				upper = step == 1
			} else if linearAlg {
				upper = verifChoice("upper", 2) == 1
			}
			var ok bool
			var req metadata.AllocationRequest
			var err error
			panicked := verifCatch(func() {
				ok, req, err = m.CreateAllocationRequest(size, uint(align), upper, kind, 0, int(^uint(0)>>1))
			})
			verifAssert("C09/request-does-not-panic", !panicked)
			verifAssert("C13/granularity/request-does-not-panic", !panicked) // the same run serves C13 (block level, granularity rules in force)
			if panicked {
				return
			}
			if err == nil && ok {
				ud := new(int)
				panicked = verifCatch(func() { err = m.Alloc(req, kind, ud) })
				verifAssert("C09/commit-does-not-panic", !panicked)
				verifAssert("C13/granularity/commit-does-not-panic", !panicked)
				if panicked {
					return
				}
				if err == nil {
					live = append(live, gAlloc{req.BlockAllocationHandle, kind, size, align, ud})
				}
			}
		}
		// ---- oracle: pages of conflicting kinds are disjoint; allocations are aligned and in bounds
		regs := gRegions(m)
		offs := make([]int, len(live))
		sizes := make([]int, len(live))
		found := true
		for i := range live {
			f := false
			for _, r := range regs {
				if p, isP := r.ud.(*int); isP && !r.free && p == live[i].ud {
					offs[i], sizes[i], f = r.off, r.size, true
				}
			}
			found = found && f
		}
		verifAssert("C09/every-live-allocation-enumerated", found)
		if !found {
			return
		}
		okPages, okBasic := true, true
		for i := range live {
			okBasic = verifAnd(okBasic, offs[i]&(live[i].align-1) == 0)
			okBasic = verifAnd(okBasic, offs[i] >= 0)
			okBasic = verifAnd(okBasic, offs[i]+sizes[i] <= B)
			okBasic = verifAnd(okBasic, sizes[i] >= live[i].size)
			for j := i + 1; j < len(live); j++ {
				okBasic = verifAnd(okBasic, verifOr(offs[i]+sizes[i] <= offs[j], offs[j]+sizes[j] <= offs[i]))
				if kindsConflict(live[i].kind, live[j].kind) {
					firstI, lastI := offs[i]>>sh, (offs[i]+sizes[i]-1)>>sh
					firstJ, lastJ := offs[j]>>sh, (offs[j]+sizes[j]-1)>>sh
					okPages = verifAnd(okPages, verifOr(lastI < firstJ, lastJ < firstI))
				}
			}
		}
		verifAssert("C09/allocations-aligned-in-bounds-disjoint", okBasic)
		verifAssert("C09/conflicting-kinds-never-share-a-page", okPages)
	}
	verifReach("end")
}
