//go:build verif_harness

package vam

import (
	"github.com/vkngwrapper/core/v3/core1_0"
)

// C12 (reduced form): pairs of API calls named by the property run in two goroutines on an internally synchronised
// allocator. The engine explores the schedules (scheduling points: mutex, atomic and pool operations; at most two
// pre-emptions) and monitors happens-before over heap slots; natively the same harness runs under `go test -race`.

func (w *vWorld) blockAlloc(typeIndex int, size int, mappable bool, persistent bool) *vAlloc {
	flags := AllocationCreateFlags(0)
	if mappable {
		flags |= AllocationCreateHostAccessRandom
	}
	if persistent {
		flags |= AllocationCreateMapped
	}
	reqs := core1_0.MemoryRequirements{Size: size, Alignment: 1, MemoryTypeBits: 1 << uint(typeIndex)}
	a := &Allocation{}
	_, err := w.al.AllocateMemory(&reqs, AllocationCreateInfo{Flags: flags}, a)
	if err != nil {
		return nil
	}
	return &vAlloc{a: a, reqSize: size, reqAlign: 1, typeBits: 1 << uint(typeIndex), mapAllow: mappable, mappedReq: persistent}
}

// Verif_C12_Pairs: cfg selects the pair of concurrent operations.
//
//	0: allocate || free of distinct allocations in one block list
//	1: map/unmap of an allocation || allocate in the same block
//	2: map/unmap || map/unmap of two allocations sharing a block
//	3: dedicated allocate || CalculateStatistics
//	4: pool create || pool destroy (two different pools)
//	5: CalculateStatistics || free
//	6: free || free of two allocations sharing a block
//	7: free || free of the only allocations of two different blocks of one pool (totals must equal a sequential execution:
//	   exactly one spare empty block is kept)
//	8: map/unmap || map/unmap of the SAME allocation (reference counting of the block's mapping; afterwards a further
//	   map/unmap must succeed and no invalid driver call - double map, unmap of an unmapped object - is issued)
//	9: dedicated allocate || free of another dedicated allocation (dedicated list register/unregister)
//	10: allocate || allocate in one pool whose current block cannot take both (block creation under the list's lock;
//	   the totals must equal a sequential execution: exactly two blocks)
//	11: pool create || pool create (distinct ids, both registered)
//	12: dedicated allocate || dedicated allocate with room for exactly one more memory object under
//	   maxMemoryAllocationCount (every sequential execution grants exactly one; the device limit is never exceeded)
func Verif_C12_Pairs(cfg int) {
	variant := 0
	if cfg == 12 {
		variant = 8 // maxMemoryAllocationCount 2; the block shared by a and b is the first memory object
	}
	w := newWorld(12, variant)
	size := verifNondetInt("size")
	verifAssume(size >= 1)
	verifAssume(size <= 100)
	a := w.blockAlloc(tHostCoh, 64, true, false)
	b := w.blockAlloc(tHostCoh, size, true, false)
	verifAssume(a != nil)
	verifAssume(b != nil)
	w.live = append(w.live, a, b)
	var c *vAlloc
	var pool1, pool2 *Pool
	var e1, e2 error
	var st AllocatorStatistics
	var pa, pb *vAlloc
	switch cfg {
	case 4:
		pool1, _, e1 = w.al.CreatePool(PoolCreateInfo{MemoryTypeIndex: tHostCoh, BlockSize: 256, MaxBlockCount: 2})
		verifAssume(e1 == nil)
	case 7:
		pool1, _, e1 = w.al.CreatePool(PoolCreateInfo{MemoryTypeIndex: tHostCoh, BlockSize: 256, MaxBlockCount: 3})
		verifAssume(e1 == nil)
		w.pools = append(w.pools, pool1)
		mk := func() *vAlloc {
			reqs := core1_0.MemoryRequirements{Size: 200, Alignment: 1, MemoryTypeBits: 0xF}
			x := &Allocation{}
			_, err := w.al.AllocateMemory(&reqs, AllocationCreateInfo{Pool: pool1}, x)
			verifAssume(err == nil)
			return &vAlloc{a: x, reqSize: 200, reqAlign: 1, typeBits: 2, pool: pool1}
		}
		pa, pb = mk(), mk() // 200 bytes each: one allocation per 256-byte block
		verifAssume(pool1.blockList.BlockCount() == 2)
	case 9:
		reqs := core1_0.MemoryRequirements{Size: 100, Alignment: 1, MemoryTypeBits: 0x1}
		x := &Allocation{}
		_, err := w.al.AllocateMemory(&reqs, AllocationCreateInfo{Flags: AllocationCreateDedicatedMemory}, x)
		verifAssume(err == nil)
		pa = &vAlloc{a: x, reqSize: 100, reqAlign: 1, typeBits: 0x1, dedicated: true}
		w.live = append(w.live, pa)
	case 10:
		pool1, _, e1 = w.al.CreatePool(PoolCreateInfo{MemoryTypeIndex: tHostCoh, BlockSize: 256, MaxBlockCount: 3})
		verifAssume(e1 == nil)
		w.pools = append(w.pools, pool1)
	}
	poolAlloc := func() *vAlloc {
		reqs := core1_0.MemoryRequirements{Size: 200, Alignment: 1, MemoryTypeBits: 0xF}
		x := &Allocation{}
		_, err := w.al.AllocateMemory(&reqs, AllocationCreateInfo{Pool: pool1}, x)
		if err != nil {
			return nil
		}
		return &vAlloc{a: x, reqSize: 200, reqAlign: 1, typeBits: 2, pool: pool1}
	}
	var f1, f2 func()
	switch cfg {
	case 0:
		f1 = func() { c = w.blockAlloc(tHostCoh, 32, true, false) }
		f2 = func() { e2 = a.a.Free() }
	case 1:
		f1 = func() {
			_, _, e1 = a.a.Map()
			if e1 == nil {
				e1 = a.a.Unmap()
			}
		}
		f2 = func() { c = w.blockAlloc(tHostCoh, 32, true, false) }
	case 2:
		f1 = func() {
			_, _, e1 = a.a.Map()
			if e1 == nil {
				e1 = a.a.Unmap()
			}
		}
		f2 = func() {
			_, _, e2 = b.a.Map()
			if e2 == nil {
				e2 = b.a.Unmap()
			}
		}
	case 3:
		f1 = func() {
			reqs := core1_0.MemoryRequirements{Size: 200, Alignment: 1, MemoryTypeBits: 0x1}
			x := &Allocation{}
			_, e1 = w.al.AllocateMemory(&reqs, AllocationCreateInfo{Flags: AllocationCreateDedicatedMemory}, x)
			if e1 == nil {
				c = &vAlloc{a: x, reqSize: 200, reqAlign: 1, typeBits: 0x1, dedicated: true}
			}
		}
		f2 = func() { e2 = w.al.CalculateStatistics(&st) }
	case 4:
		f1 = func() {
			pool2, _, e1 = w.al.CreatePool(PoolCreateInfo{MemoryTypeIndex: tDeviceLocal, BlockSize: 256, MaxBlockCount: 2})
		}
		f2 = func() { e2 = pool1.Destroy() }
	case 5:
		f1 = func() { e1 = w.al.CalculateStatistics(&st) }
		f2 = func() { e2 = b.a.Free() }
	case 7:
		f1 = func() { e1 = pa.a.Free() }
		f2 = func() { e2 = pb.a.Free() }
	case 8:
		f1 = func() {
			_, _, e1 = a.a.Map()
			if e1 == nil {
				e1 = a.a.Unmap()
			}
		}
		f2 = func() {
			_, _, e2 = a.a.Map()
			if e2 == nil {
				e2 = a.a.Unmap()
			}
		}
	case 9:
		f1 = func() {
			reqs := core1_0.MemoryRequirements{Size: 200, Alignment: 1, MemoryTypeBits: 0x1}
			x := &Allocation{}
			_, e1 = w.al.AllocateMemory(&reqs, AllocationCreateInfo{Flags: AllocationCreateDedicatedMemory}, x)
			if e1 == nil {
				c = &vAlloc{a: x, reqSize: 200, reqAlign: 1, typeBits: 0x1, dedicated: true}
			}
		}
		f2 = func() { e2 = pa.a.Free() }
	case 10:
		f1 = func() { pa = poolAlloc() }
		f2 = func() { pb = poolAlloc() }
	case 11:
		f1 = func() {
			pool1, _, e1 = w.al.CreatePool(PoolCreateInfo{MemoryTypeIndex: tHostCoh, BlockSize: 256, MaxBlockCount: 2})
		}
		f2 = func() {
			pool2, _, e2 = w.al.CreatePool(PoolCreateInfo{MemoryTypeIndex: tDeviceLocal, BlockSize: 256, MaxBlockCount: 2})
		}
	case 12:
		verifAssume(w.dev.liveMemCount() == w.maxAllocs-1) // a and b share one block: room for exactly one more object
		ded := func(out **vAlloc) error {
			reqs := core1_0.MemoryRequirements{Size: 200, Alignment: 1, MemoryTypeBits: 0x1}
			x := &Allocation{}
			_, err := w.al.AllocateMemory(&reqs, AllocationCreateInfo{Flags: AllocationCreateDedicatedMemory}, x)
			if err == nil {
				*out = &vAlloc{a: x, reqSize: 200, reqAlign: 1, typeBits: 0x1, dedicated: true}
			}
			return err
		}
		f1 = func() { e1 = ded(&pa) }
		f2 = func() { e2 = ded(&pb) }
	default:
		f1 = func() { e1 = a.a.Free() }
		f2 = func() { e2 = b.a.Free() }
	}
	verifGo(f1)
	verifGo(f2)
	verifJoin()
	if cfg == 12 {
		verifAssert("C12/totals-equal-a-sequential-execution: exactly-one-of-two-racing-requests-granted-at-the-object-limit", (e1 == nil) != (e2 == nil))
		if pa != nil {
			w.live = append(w.live, pa)
		}
		if pb != nil {
			w.live = append(w.live, pb)
		}
		w.oracleC11("C12/device-object-limit-respected-after-racing-allocations")
	} else {
		verifAssert("C12/concurrent-operations-return-no-error", verifAnd(e1 == nil, e2 == nil))
	}
	// the goroutines have finished: bring the harness' live set up to date and check the invariants and totals
	switch cfg {
	case 0:
		w.live = []*vAlloc{b}
	case 5:
		w.live = []*vAlloc{a}
	case 6:
		w.live = nil
	case 8:
		// the reference count is back where it was: a further map/unmap pair works and leaves nothing mapped
		_, _, e1 = a.a.Map()
		verifAssert("C12/map-after-concurrent-map-unmap-succeeds", e1 == nil)
		if e1 == nil {
			e1 = a.a.Unmap()
			verifAssert("C12/unmap-after-concurrent-map-unmap-succeeds", e1 == nil)
		}
	case 9:
		w.live = []*vAlloc{a, b}
	case 10:
		verifAssert("C12/concurrent-pool-allocations-both-succeed", verifAnd(pa != nil, pb != nil))
		if pa != nil {
			w.live = append(w.live, pa)
		}
		if pb != nil {
			w.live = append(w.live, pb)
		}
		verifAssert("C12/totals-equal-a-sequential-execution: two-blocks-after-concurrent-allocations", pool1.blockList.BlockCount() == 2)
	case 11:
		if pool1 != nil {
			w.pools = append(w.pools, pool1)
		}
		if verifAnd(pool1 != nil, pool2 != nil) {
			verifAssert("C12/concurrently-created-pools-have-distinct-ids", pool1.ID() != pool2.ID())
		}
	}
	if c != nil {
		w.live = append(w.live, c)
	}
	if pool2 != nil {
		w.pools = append(w.pools, pool2)
	}
	if cfg == 7 {
		// every sequential execution of the two frees keeps exactly one spare empty block
		verifAssert("C12/totals-equal-a-sequential-execution: one-spare-block-after-concurrent-frees", pool1.blockList.BlockCount() == 1)
	}
	w.oracleC02("C12/invariants-after-the-goroutines-finished")
	w.oracleC04("C12/totals-after-the-goroutines-finished")
	verifAssert("C12/no-invalid-driver-call", len(w.dev.vu) == 0)
	verifReach("end")
}

// Verif_C11_Race: the schedule clause of C11 - two goroutines race for the last bytes of a heap size limit
// (heap 0 limited to 512 bytes, two dedicated requests of symbolic sizes that do not both fit).
func Verif_C11_Race(cfg int) {
	w := newWorld(11, 4) // heap size limits {512, 1024}
	s1 := verifNondetInt("size1")
	s2 := verifNondetInt("size2")
	verifAssume(s1 >= 1)
	verifAssume(s1 <= 400)
	verifAssume(s2 >= 1)
	verifAssume(s2 <= 400)
	var a1, a2 Allocation
	var e1, e2 error
	alloc := func(size int, out *Allocation) error {
		reqs := core1_0.MemoryRequirements{Size: size, Alignment: 1, MemoryTypeBits: 0x1}
		_, err := w.al.AllocateMemory(&reqs, AllocationCreateInfo{Flags: AllocationCreateDedicatedMemory}, out)
		return err
	}
	verifGo(func() { e1 = alloc(s1, &a1) })
	verifGo(func() { e2 = alloc(s2, &a2) })
	verifJoin()
	if e1 == nil {
		w.live = append(w.live, &vAlloc{a: &a1, reqSize: s1, reqAlign: 1, typeBits: 0x1, dedicated: true})
	}
	if e2 == nil {
		w.live = append(w.live, &vAlloc{a: &a2, reqSize: s2, reqAlign: 1, typeBits: 0x1, dedicated: true})
	}
	w.oracleC11("C11/race/limits-respected-after-racing-allocations")
	// a request is only refused when it really does not fit next to what was granted
	if e1 != nil && e2 != nil {
		verifAssert("C11/race/not-both-refused-when-each-fits-alone", verifAnd(s1 > 512, s2 > 512))
	}
	w.oracleC04("C11/race/totals-after-racing-allocations")
	verifReach("end")
}
