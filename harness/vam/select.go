//go:build verif_harness

package vam

import (
	"github.com/vkngwrapper/arsenal/vam/internal/vulkan"
	"github.com/vkngwrapper/core/v3/core1_0"
)

// C19: memory type selection, checked clause by clause against a specification written from the property text.
// The memory type table (flags of every type), all masks, usage mode, host-access flags, required / preferred flags
// and the resource usage word are symbolic; the number of types N is concrete (cfg).

const (
	fDeviceLocal = 0x01
	fHostVisible = 0x02
	fHostCached  = 0x08
	fLazily      = 0x10
	fCoherentAMD = 0x40
	fUncachedAMD = 0x80
)

func pop8(x int) int {
	n := 0
	for k := 0; k < 8; k++ {
		n += (x >> uint(k)) & 1
	}
	return n
}

func b2i(b bool) int { return verifIte(b, 1, 0) }

func Verif_C19_Select(cfg int) {
	N := 3 + cfg%4 // 3..6 memory types
	integrated := (cfg/4)%2 == 1
	amdExt := (cfg/8)%2 == 1
	types := make([]core1_0.MemoryType, N)
	flags := make([]int, N)
	for i := range types {
		f := verifNondetInt("typeFlags")
		verifAssume(f >= 0)
		verifAssume(f < 256)
		flags[i] = f
		types[i] = core1_0.MemoryType{PropertyFlags: core1_0.MemoryPropertyFlags(f), HeapIndex: 0}
	}
	sim := newSim(simCfg{types: types, heaps: []core1_0.MemoryHeap{{Size: 1 << 20}}, granularity: 1, atom: 1, maxAllocs: 4096, integrated: integrated})
	ext := &vulkan.ExtensionData{UseAMDDeviceCoherentMemory: amdExt}
	dm, err := vulkan.NewDeviceMemoryProperties(sim, false, nil, nil, sim.dev, sim.pd, []int{0}, nil, ext)
	verifAssume(err == nil)
	a := &Allocator{deviceMemory: dm, extensionData: ext}
	a.globalMemoryTypeBits = dm.CalculateGlobalMemoryTypeBits()

	usage := verifNondetInt("usage")
	verifAssume(usage >= 0)
	verifAssume(usage <= 4)
	seqWrite := verifNondetBool("hostAccessSequentialWrite")
	random := verifNondetBool("hostAccessRandom")
	allowTransfer := verifNondetBool("hostAccessAllowTransferInstead")
	var fl AllocationCreateFlags
	fl |= AllocationCreateFlags(verifIte(seqWrite, int(AllocationCreateHostAccessSequentialWrite), 0))
	fl |= AllocationCreateFlags(verifIte(random, int(AllocationCreateHostAccessRandom), 0))
	fl |= AllocationCreateFlags(verifIte(allowTransfer, int(AllocationCreateHostAccessAllowTransferInstead), 0))
	required := verifNondetInt("requiredFlags")
	verifAssume(required >= 0)
	verifAssume(required < 256)
	preferred := verifNondetInt("preferredFlags")
	verifAssume(preferred >= 0)
	verifAssume(preferred < 256)
	callerMask := verifNondetUint32("callerTypeBits")
	reqMask := verifNondetUint32("requirementTypeBits")
	o := AllocationCreateInfo{Flags: fl, Usage: MemoryUsage(usage), RequiredFlags: core1_0.MemoryPropertyFlags(required),
		PreferredFlags: core1_0.MemoryPropertyFlags(preferred), MemoryTypeBits: callerMask}
	var usagePtr *uint32
	if verifChoice("hasResourceUsage", 2) == 1 {
		u := verifNondetUint32("resourceUsage")
		usagePtr = &u
	}
	_, perr := a.calcAllocationParams(&o, false)
	if perr != nil {
		verifReach("invalid-flag-combination")
		return
	}
	auto := verifOr(usage == 2, verifOr(usage == 3, usage == 4))
	idx, res, err := a.findMemoryTypeIndex(reqMask, &o, usagePtr)

	// ---- specification
	stmtRequired := required
	stmtRequired |= verifIte(usage == 1, fLazily, 0)
	stmtRequired |= verifIte(verifAnd(auto, verifAnd(verifOr(seqWrite, random), !allowTransfer)), fHostVisible, 0)
	implReq, _, _ := a.findMemoryPreferences(&o, usagePtr)
	asked := (required|preferred)&(fCoherentAMD|fUncachedAMD) != 0
	permitted := make([]bool, N)
	eligible := make([]bool, N)
	eligibleImpl := make([]bool, N)
	cost := make([]int, N)
	anyEligible, anyEligibleImpl := false, false
	for i := 0; i < N; i++ {
		bit := uint32(1) << uint(i)
		p := reqMask&bit != 0
		p = verifAnd(p, verifOr(callerMask == 0, callerMask&bit != 0))
		p = verifAnd(p, verifOr(amdExt, flags[i]&fCoherentAMD == 0)) // the device's own mask
		permitted[i] = p
		eligible[i] = verifAnd(p, flags[i]&stmtRequired == stmtRequired)
		eligibleImpl[i] = verifAnd(p, flags[i]&int(implReq) == int(implReq))
		anyEligible = verifOr(anyEligible, eligible[i])
		anyEligibleImpl = verifOr(anyEligibleImpl, eligibleImpl[i])
		cost[i] = pop8(preferred&^flags[i]) + b2i(verifAnd(flags[i]&fUncachedAMD != 0, !asked))
	}
	if err != nil {
		verifAssert("C19/failure-is-feature-not-present", res == core1_0.VKErrorFeatureNotPresent)
		verifAssert("C19/feature-not-present-only-if-no-permitted-type-has-the-required-properties",
			verifOr(verifAnd(!allowTransfer, !anyEligible), verifAnd(allowTransfer, !anyEligibleImpl)))
		verifReach("refused")
		return
	}
	verifAssert("C19/chosen-index-in-range", verifAnd(idx >= 0, idx < N))
	if idx < 0 || idx >= N {
		return
	}
	verifAssert("C19/chosen-type-permitted-by-all-masks", permitted[idx])
	verifAssert("C19/chosen-type-has-every-required-property", eligible[idx])
	verifAssert("C19/success-implies-an-eligible-type-exists", anyEligible)
	if usage == 0 {
		best := true
		for j := 0; j < N; j++ {
			if j == idx {
				continue
			}
			worse := cost[j] > cost[idx]
			if j > idx {
				worse = cost[j] >= cost[idx]
			}
			best = verifAnd(best, verifOr(!eligible[j], worse))
		}
		verifAssert("C19/no-usage-mode: fewest-missing-preferred-properties-lowest-index-on-ties", best)
	}
	hostAccess := verifOr(seqWrite, random)
	if usage >= 2 {
		existsLocal, existsNonLocal := false, false
		for j := 0; j < N; j++ {
			clean := verifAnd(eligible[j], flags[j]&fUncachedAMD == 0)
			existsLocal = verifOr(existsLocal, verifAnd(clean, flags[j]&fDeviceLocal != 0))
			existsNonLocal = verifOr(existsNonLocal, verifAnd(clean, flags[j]&fDeviceLocal == 0))
		}
		plain := verifAnd(!hostAccess, preferred == 0)
		chosenLocal := flags[idx]&fDeviceLocal != 0
		if usage == 4 {
			verifAssert("C19/auto-prefer-host: non-device-local-chosen-when-available", verifImplies(verifAnd(plain, existsNonLocal), !chosenLocal))
		} else {
			verifAssert("C19/auto: device-local-chosen-when-available", verifImplies(verifAnd(plain, existsLocal), chosenLocal))
		}
	}
	verifReach("end")
}
