//go:build verif_harness

package vam

import (
	"github.com/vkngwrapper/core/v3/core1_0"
)

// Entry points of the allocator-level histories.
//
// cfg%32 = device variant (see newWorld); cfg/32 = scenario.

func histBounds() int {
	if verifTier() == 1 {
		return 4
	}
	return 3
}

func Verif_C02_Hist(cfg int) {
	w := newWorld(2, cfg%32)
	w.history(histBounds(), []int{0, 1, 2, 3, 5}, cfg/32 == 1, cfg/32 == 2)
	verifReach("end")
}

func Verif_C04_Hist(cfg int) {
	w := newWorld(4, cfg%32)
	w.history(histBounds(), []int{0, 1, 2, 3}, cfg/32 == 1, cfg/32 == 2)
	verifReach("end")
}

func Verif_C11_Hist(cfg int) {
	w := newWorld(11, cfg%32)
	w.history(histBounds(), []int{0, 1, 3, 4}, cfg/32 == 1, cfg/32 == 2)
	verifReach("end")
}

func Verif_C13_Hist(cfg int) {
	w := newWorld(13, cfg%32)
	K := histBounds()
	if cfg/32 == 3 {
		K = 1
	}
	w.history(K, []int{0, 1, 2, 3, 4, 5}, cfg/32 == 1, cfg/32 == 2)
	// argument domain widened to "well-typed": pool settings
	if cfg/32 == 3 {
		idx := verifNondetInt("poolMemoryTypeIndex")
		verifAssume(idx >= -2)
		verifAssume(idx <= 40)
		var err error
		p := verifCatch(func() { _, _, err = w.al.CreatePool(PoolCreateInfo{MemoryTypeIndex: idx}) })
		verifAssert("C13/vam/create-pool-with-any-type-index-does-not-panic", !p)
		_ = err
	}
	verifReach("end")
}

// Verif_C20_Teardown: history, then everything is freed (or one allocation is deliberately leaked), then pools and
// allocator are destroyed.
func Verif_C20_Teardown(cfg int) {
	w := newWorld(20, cfg%32)
	if verifTier() == 1 {
		w.history(3, []int{0, 1, 2, 3}, true, false)
	} else {
		w.historyPV(3, []int{0, 3}, true, false, []int{0, 1})
	}
	leak := -1
	if len(w.live) > 0 && verifChoice("leakOne", 2) == 1 {
		leak = verifChoice("leaked", len(w.live))
	}
	var leaked *vAlloc
	if leak >= 0 {
		leaked = w.live[leak]
	}
	desc := verifChoice("freeDescending", 2) == 1
	for {
		i := -1
		if desc {
			for j := len(w.live) - 1; j >= 0; j-- {
				if w.live[j] != leaked {
					i = j
					break
				}
			}
		} else {
			for j := 0; j < len(w.live); j++ {
				if w.live[j] != leaked {
					i = j
					break
				}
			}
		}
		if i < 0 {
			break
		}
		n := len(w.live)
		w.free(i)
		if len(w.live) == n {
			return
		}
	}
	if leaked == nil {
		ok := true
		for _, bl := range w.al.memoryBlockLists {
			if bl != nil {
				ok = verifAnd(ok, bl.BlockCount() <= 1)
			}
		}
		for _, p := range w.pools {
			lim := p.blockList.minBlockCount
			if lim < 1 {
				lim = 1
			}
			ok = verifAnd(ok, p.blockList.BlockCount() <= lim)
		}
		verifAssert("C20/after-freeing-everything-only-the-minimum-or-one-spare-block-remains", ok)
	}
	// destroy pools, then the allocator
	allOK := true
	leakReported := false
	panicked := verifCatch(func() {
		for _, p := range w.pools {
			err := p.Destroy()
			if err != nil {
				leakReported = true
			}
			allOK = allOK && err == nil
		}
		err := w.al.Destroy()
		if err != nil {
			leakReported = true
		}
		allOK = allOK && err == nil
	})
	verifAssert("C20/teardown-does-not-panic", !panicked)
	if panicked {
		return
	}
	if leaked == nil {
		verifAssert("C20/teardown-of-a-fully-freed-allocator-succeeds", allOK)
		noMem := w.dev.liveMemCount() == 0
		noMap := true
		for _, m := range w.dev.mems {
			if m.live && m.mapped {
				noMap = false
			}
		}
		verifAssert("C20/teardown-leaves-no-device-memory-and-no-mapping", noMem && noMap)
	} else {
		verifAssert("C20/teardown-with-a-live-allocation-reports-an-error", leakReported)
		m := w.dev.memOf(leaked.a.Memory())
		verifAssert("C20/memory-of-a-live-allocation-is-not-released-by-teardown", m != nil && m.live)
	}
	verifAssert("C20/no-invalid-driver-call-during-the-history", len(w.dev.vu) == 0)
	verifReach("end")
}

// Verif_C11_OverBudget: a custom pool with a minimum block count on a small heap that is pushed over its budget
// (80 % of the heap) by a dedicated allocation from the default pools; allocations in the pool are then made and freed.
// The pool must never drop below its minimum (nor exceed its maximum) block count.
func Verif_C11_OverBudget(cfg int) {
	w := newWorldH(11, cfg%32, 512)
	var pool *Pool
	var err error
	p := verifCatch(func() {
		pool, _, err = w.al.CreatePool(PoolCreateInfo{MemoryTypeIndex: tDeviceLocal, BlockSize: 256, MinBlockCount: 1, MaxBlockCount: 2})
	})
	verifAssume(!p)
	verifAssume(err == nil)
	w.pools = append(w.pools, pool)
	w.oracleC11("C11/over-budget/after-pool-creation")
	steps := 3
	if verifTier() == 1 {
		steps = 4
	}
	for i := 0; i < steps; i++ {
		nops := 2
		if len(w.live) > 0 {
			nops = 3
		}
		switch verifChoice("op", nops) {
		case 0:
			w.allocate(3, nil, 1, 300) // dedicated, default pools
		case 1:
			w.allocate(0, pool, 1, 256) // block allocation in the pool
		case 2:
			w.free(verifChoice("victim", len(w.live)))
		}
		w.oracleC11("C11/over-budget/after-step")
	}
	verifReach("end")
}

// Verif_C11_FaultCount: the limits must also hold after driver failures. Device variant with
// maxMemoryAllocationCount 2 and/or heap size limits (cfg%32); 4 dedicated allocations of a symbolic size, every
// vkAllocateMemory call may fail (at most 2 faults); in between any live allocation may be freed. After every step
// the simulated device's live objects and bytes are compared with the limits.
func Verif_C11_FaultCount(cfg int) {
	w := newWorld(11, cfg%32)
	w.dev.faults, w.dev.faultsLeft = true, 2
	for i := 0; i < 4; i++ {
		nops := 1
		if len(w.live) > 0 {
			nops = 2
		}
		switch verifChoice("op", nops) {
		case 0:
			w.allocate(3, nil, 1, 300) // dedicated, default pools
		case 1:
			w.free(verifChoice("victim", len(w.live)))
		}
		w.oracleC11("C11/limits-hold-after-driver-failures")
	}
	verifReach("end")
}

// Verif_C19_Fallback: last clause of C19. A request whose eligible types are 1 and 2 (both host-visible, same heap);
// every AllocateMemory driver call may fail. If the request fails, every eligible type must have received an attempt;
// if it succeeds it must have landed in an eligible type.
func Verif_C19_Fallback(cfg int) {
	w := newWorld(19, cfg%32)
	if verifChoice("preexistingBlock", 2) == 1 {
		// an earlier allocation leaves a block with free space in type 2
		reqs := core1_0.MemoryRequirements{Size: 64, Alignment: 1, MemoryTypeBits: 0x4}
		a := &Allocation{}
		_, err := w.al.AllocateMemory(&reqs, AllocationCreateInfo{}, a)
		verifAssume(err == nil)
		w.live = append(w.live, &vAlloc{a: a, reqSize: 64, reqAlign: 1, typeBits: 0x4})
	}
	size := verifNondetInt("size")
	verifAssume(size >= 1)
	verifAssume(size <= 400)
	w.dev.faults, w.dev.faultsLeft = true, 8
	w.dev.allocTypes = nil
	reqs := core1_0.MemoryRequirements{Size: size, Alignment: 1, MemoryTypeBits: 0xF}
	a := &Allocation{}
	var err error
	p := verifCatch(func() {
		_, err = w.al.AllocateMemory(&reqs, AllocationCreateInfo{RequiredFlags: core1_0.MemoryPropertyHostVisible}, a)
	})
	verifAssert("C19/fallback/request-does-not-panic", !p)
	if p {
		return
	}
	if err != nil {
		tried1, tried2 := false, false
		for _, t := range w.dev.allocTypes {
			if t == tHostCoh {
				tried1 = true
			}
			if t == tHostNonCoh {
				tried2 = true
			}
		}
		// a type whose existing block can serve the request needs no driver call; it would have made the request succeed
		verifAssert("C19/fallback/every-eligible-type-is-tried-before-the-request-fails", tried1 && tried2)
		verifReach("failed")
	} else {
		ti := a.MemoryTypeIndex()
		verifAssert("C19/fallback/success-lands-in-an-eligible-type", ti == tHostCoh || ti == tHostNonCoh)
		verifReach("succeeded")
	}
	verifReach("end")
}
