//go:build verif_harness

package vam

// Entry points of the allocator-level histories.
//
// cfg%32 = device variant (see newWorld); cfg/32 = scenario.

func histBounds() int {
	if verifTier() == 1 {
		return 4
	}
	return 3
}

func Verif_C02_Hist(cfg int) {
	w := newWorld(2, cfg%32)
	w.history(histBounds(), []int{0, 1, 2, 3, 5}, cfg/32 == 1, cfg/32 == 2)
	verifReach("end")
}

func Verif_C04_Hist(cfg int) {
	w := newWorld(4, cfg%32)
	w.history(histBounds(), []int{0, 1, 2, 3}, cfg/32 == 1, cfg/32 == 2)
	verifReach("end")
}

func Verif_C11_Hist(cfg int) {
	w := newWorld(11, cfg%32)
	w.history(histBounds(), []int{0, 1, 3, 4}, cfg/32 == 1, cfg/32 == 2)
	verifReach("end")
}

func Verif_C13_Hist(cfg int) {
	w := newWorld(13, cfg%32)
	K := histBounds()
	if cfg/32 == 3 {
		K = 1
	}
	w.history(K, []int{0, 1, 2, 3, 4, 5}, cfg/32 == 1, cfg/32 == 2)
	// argument domain widened to "well-typed": pool settings
	if cfg/32 == 3 {
		idx := verifNondetInt("poolMemoryTypeIndex")
		verifAssume(idx >= -2)
		verifAssume(idx <= 40)
		var err error
		p := verifCatch(func() { _, _, err = w.al.CreatePool(PoolCreateInfo{MemoryTypeIndex: idx}) })
		verifAssert("C13/vam/create-pool-with-any-type-index-does-not-panic", !p)
		_ = err
	}
	verifReach("end")
}

// Verif_C20_Teardown: history, then everything is freed (or one allocation is deliberately leaked), then pools and
// allocator are destroyed.
func Verif_C20_Teardown(cfg int) {
	w := newWorld(20, cfg%32)
	if verifTier() == 1 {
		w.history(3, []int{0, 1, 2, 3}, true, false)
	} else {
		w.historyPV(3, []int{0, 3}, true, false, []int{0, 1})
	}
	leak := -1
	if len(w.live) > 0 && verifChoice("leakOne", 2) == 1 {
		leak = verifChoice("leaked", len(w.live))
	}
	var leaked *vAlloc
	if leak >= 0 {
		leaked = w.live[leak]
	}
	desc := verifChoice("freeDescending", 2) == 1
	for {
		i := -1
		if desc {
			for j := len(w.live) - 1; j >= 0; j-- {
				if w.live[j] != leaked {
					i = j
					break
				}
			}
		} else {
			for j := 0; j < len(w.live); j++ {
				if w.live[j] != leaked {
					i = j
					break
				}
			}
		}
		if i < 0 {
			break
		}
		n := len(w.live)
		w.free(i)
		if len(w.live) == n {
			return
		}
	}
	if leaked == nil {
		ok := true
		for _, bl := range w.al.memoryBlockLists {
			if bl != nil {
				ok = verifAnd(ok, bl.BlockCount() <= 1)
			}
		}
		for _, p := range w.pools {
			lim := p.blockList.minBlockCount
			if lim < 1 {
				lim = 1
			}
			ok = verifAnd(ok, p.blockList.BlockCount() <= lim)
		}
		verifAssert("C20/after-freeing-everything-only-the-minimum-or-one-spare-block-remains", ok)
	}
	// destroy pools, then the allocator
	allOK := true
	leakReported := false
	panicked := verifCatch(func() {
		for _, p := range w.pools {
			err := p.Destroy()
			if err != nil {
				leakReported = true
			}
			allOK = allOK && err == nil
		}
		err := w.al.Destroy()
		if err != nil {
			leakReported = true
		}
		allOK = allOK && err == nil
	})
	verifAssert("C20/teardown-does-not-panic", !panicked)
	if panicked {
		return
	}
	if leaked == nil {
		verifAssert("C20/teardown-of-a-fully-freed-allocator-succeeds", allOK)
		noMem := w.dev.liveMemCount() == 0
		noMap := true
		for _, m := range w.dev.mems {
			if m.live && m.mapped {
				noMap = false
			}
		}
		verifAssert("C20/teardown-leaves-no-device-memory-and-no-mapping", noMem && noMap)
	} else {
		verifAssert("C20/teardown-with-a-live-allocation-reports-an-error", leakReported)
		m := w.dev.memOf(leaked.a.Memory())
		verifAssert("C20/memory-of-a-live-allocation-is-not-released-by-teardown", m != nil && m.live)
	}
	verifAssert("C20/no-invalid-driver-call-during-the-history", len(w.dev.vu) == 0)
	verifReach("end")
}
