//go:build verif_harness

package vam

import (
	"sync"
	"unsafe"

	"github.com/vkngwrapper/core/v3/common"
	"github.com/vkngwrapper/core/v3/core1_0"
	"github.com/vkngwrapper/core/v3/loader"
)

// Simulated Vulkan device: a contract-only model of the driver entry points the allocator uses. It records the
// live memory objects, their mapping state and bound resources, and flags every call that violates the Vulkan
// valid-usage rules named by property C08. Fallible calls can be made to fail (fault injection) under the
// harness' control. Any driver entry point that is not modelled here is a nil-interface call and panics.

type simMem struct {
	handle    core1_0.DeviceMemory
	id        int
	size      int
	typeIndex int
	live      bool
	mapped    bool
	mapCalls  int
	base      int // simulated host address of offset 0 while mapped
}

type simRes struct {
	id        int
	isImage   bool
	size      int
	align     int
	typeBits  uint32
	live      bool
	boundTo   *simMem
	boundOff  int
	destroyed bool
}

type simInstance struct {
	core1_0.CoreInstanceDriver
	inst     core1_0.Instance
	props    *core1_0.PhysicalDeviceProperties
	memProps *core1_0.PhysicalDeviceMemoryProperties
}

func (s *simInstance) Instance() core1_0.Instance { return s.inst }
func (s *simInstance) GetPhysicalDeviceProperties(pd core1_0.PhysicalDevice) (*core1_0.PhysicalDeviceProperties, error) {
	return s.props, nil
}
func (s *simInstance) GetPhysicalDeviceMemoryProperties(pd core1_0.PhysicalDevice) *core1_0.PhysicalDeviceMemoryProperties {
	return s.memProps
}

type simDevice struct {
	core1_0.CoreDeviceDriver
	mu   sync.Mutex // the driver is thread-safe (as a Vulkan driver is for distinct objects)
	inst *simInstance
	dev  core1_0.Device
	pd   core1_0.PhysicalDevice

	mems   []*simMem
	res    []*simRes
	nextID int

	vu []string // valid-usage violations observed (C08)

	// fault injection: when faults is true every fallible call asks the harness whether to fail
	faults     bool
	faultsLeft int
	faultLog   []string
	calls      int   // driver calls made (all kinds)
	allocCalls int   // AllocateMemory calls made
	allocTypes []int // memory type index of every AllocateMemory attempt (failed ones included)

	// requirements reported for the next created buffer / image
	nextReq    core1_0.MemoryRequirements
	lastRanges []core1_0.MappedMemoryRange
}

func (d *simDevice) flag(msg string) { d.vu = append(d.vu, msg) }

func (d *simDevice) InstanceDriver() core1_0.CoreInstanceDriver { return d.inst }
func (d *simDevice) Device() core1_0.Device                     { return d.dev }

func (d *simDevice) fault(site string) bool {
	d.calls++
	if !d.faults || d.faultsLeft <= 0 {
		return false
	}
	if verifNondetBool("fault@" + site) {
		d.faultsLeft--
		d.faultLog = append(d.faultLog, site)
		return true
	}
	return false
}

func (d *simDevice) memOf(m core1_0.DeviceMemory) *simMem {
	for _, x := range d.mems {
		if x.handle.Handle() == m.Handle() {
			return x
		}
	}
	return nil
}

func (d *simDevice) liveMemCount() int {
	n := 0
	for _, x := range d.mems {
		if x.live {
			n++
		}
	}
	return n
}

func (d *simDevice) liveBytesOfHeap(heap int) int {
	n := 0
	for _, x := range d.mems {
		if x.live && d.inst.memProps.MemoryTypes[x.typeIndex].HeapIndex == heap {
			n += x.size
		}
	}
	return n
}

func (d *simDevice) AllocateMemory(cb *loader.AllocationCallbacks, o core1_0.MemoryAllocateInfo) (core1_0.DeviceMemory, common.VkResult, error) {
	verifYield()
	d.mu.Lock()
	defer d.mu.Unlock()
	d.allocCalls++
	d.allocTypes = append(d.allocTypes, o.MemoryTypeIndex)
	if d.fault("AllocateMemory") {
		return core1_0.DeviceMemory{}, core1_0.VKErrorOutOfDeviceMemory, core1_0.VKErrorOutOfDeviceMemory.ToError()
	}
	if o.AllocationSize <= 0 {
		d.flag("vkAllocateMemory: allocationSize must be greater than 0")
	}
	if o.MemoryTypeIndex < 0 || o.MemoryTypeIndex >= len(d.inst.memProps.MemoryTypes) {
		d.flag("vkAllocateMemory: memoryTypeIndex out of range")
		return core1_0.DeviceMemory{}, core1_0.VKErrorUnknown, core1_0.VKErrorUnknown.ToError()
	}
	if d.liveMemCount() >= d.inst.props.Limits.MaxMemoryAllocationCount {
		d.flag("vkAllocateMemory: maxMemoryAllocationCount exceeded")
	}
	d.nextID++
	h := core1_0.InternalDeviceMemory(d.dev.Handle(), loader.VkDeviceMemory(uintptr(0x1000+d.nextID)), common.Vulkan1_0, o.AllocationSize)
	m := &simMem{handle: h, id: d.nextID, size: o.AllocationSize, typeIndex: o.MemoryTypeIndex, live: true, base: 0x10000000 * d.nextID}
	d.mems = append(d.mems, m)
	return h, core1_0.VKSuccess, nil
}

func (d *simDevice) FreeMemory(memory core1_0.DeviceMemory, cb *loader.AllocationCallbacks) {
	verifYield()
	d.mu.Lock()
	defer d.mu.Unlock()
	d.calls++
	m := d.memOf(memory)
	if m == nil || !m.live {
		d.flag("vkFreeMemory: memory object is not live (double free or unknown handle)")
		return
	}
	m.live = false
	m.mapped = false
}

func (d *simDevice) MapMemory(memory core1_0.DeviceMemory, offset int, size int, flags core1_0.MemoryMapFlags) (unsafe.Pointer, common.VkResult, error) {
	verifYield()
	d.mu.Lock()
	defer d.mu.Unlock()
	m := d.memOf(memory)
	if m == nil || !m.live {
		d.calls++
		d.flag("vkMapMemory: memory object is not live")
		return nil, core1_0.VKErrorMemoryMapFailed, core1_0.VKErrorMemoryMapFailed.ToError()
	}
	if d.fault("MapMemory") {
		return nil, core1_0.VKErrorMemoryMapFailed, core1_0.VKErrorMemoryMapFailed.ToError()
	}
	if m.mapped {
		d.flag("vkMapMemory: memory object is already mapped")
	}
	if d.inst.memProps.MemoryTypes[m.typeIndex].PropertyFlags&core1_0.MemoryPropertyHostVisible == 0 {
		d.flag("vkMapMemory: memory type is not HOST_VISIBLE")
	}
	if offset < 0 || offset >= m.size {
		d.flag("vkMapMemory: offset outside the memory object")
	}
	if size != -1 && (size <= 0 || offset+size > m.size) {
		d.flag("vkMapMemory: size outside the memory object")
	}
	m.mapped = true
	m.mapCalls++
	return unsafe.Pointer(uintptr(m.base + offset)), core1_0.VKSuccess, nil
}

func (d *simDevice) UnmapMemory(memory core1_0.DeviceMemory) {
	verifYield()
	d.mu.Lock()
	defer d.mu.Unlock()
	d.calls++
	m := d.memOf(memory)
	if m == nil || !m.live {
		d.flag("vkUnmapMemory: memory object is not live")
		return
	}
	if !m.mapped {
		d.flag("vkUnmapMemory: memory object is not mapped")
	}
	m.mapped = false
}

func (d *simDevice) checkRanges(what string, ranges []core1_0.MappedMemoryRange) {
	atom := d.inst.props.Limits.NonCoherentAtomSize
	for _, r := range ranges {
		m := d.memOf(r.Memory)
		if m == nil || !m.live {
			d.flag(what + ": memory object is not live")
			continue
		}
		if !m.mapped {
			d.flag(what + ": memory object is not mapped")
		}
		if atom > 1 && r.Offset%atom != 0 {
			d.flag(what + ": offset is not a multiple of nonCoherentAtomSize")
		}
		if r.Offset < 0 || r.Offset >= m.size {
			d.flag(what + ": offset outside the memory object")
		}
		if r.Size != -1 {
			if r.Size <= 0 || r.Offset+r.Size > m.size {
				d.flag(what + ": range outside the memory object")
			} else if atom > 1 && r.Size%atom != 0 && r.Offset+r.Size != m.size {
				d.flag(what + ": size is neither a multiple of nonCoherentAtomSize nor reaching the end of the object")
			}
		}
	}
}

func (d *simDevice) FlushMappedMemoryRanges(ranges ...core1_0.MappedMemoryRange) (common.VkResult, error) {
	verifYield()
	d.mu.Lock()
	defer d.mu.Unlock()
	d.calls++
	d.checkRanges("vkFlushMappedMemoryRanges", ranges)
	d.lastRanges = append([]core1_0.MappedMemoryRange{}, ranges...)
	return core1_0.VKSuccess, nil
}

func (d *simDevice) InvalidateMappedMemoryRanges(ranges ...core1_0.MappedMemoryRange) (common.VkResult, error) {
	verifYield()
	d.mu.Lock()
	defer d.mu.Unlock()
	d.calls++
	d.checkRanges("vkInvalidateMappedMemoryRanges", ranges)
	d.lastRanges = append([]core1_0.MappedMemoryRange{}, ranges...)
	return core1_0.VKSuccess, nil
}

func (d *simDevice) resOfBuffer(b core1_0.Buffer) *simRes {
	for _, r := range d.res {
		if !r.isImage && uintptr(b.Handle()) == uintptr(0x200000+r.id) {
			return r
		}
	}
	return nil
}

func (d *simDevice) resOfImage(i core1_0.Image) *simRes {
	for _, r := range d.res {
		if r.isImage && uintptr(i.Handle()) == uintptr(0x300000+r.id) {
			return r
		}
	}
	return nil
}

func (d *simDevice) CreateBuffer(cb *loader.AllocationCallbacks, o core1_0.BufferCreateInfo) (core1_0.Buffer, common.VkResult, error) {
	verifYield()
	d.mu.Lock()
	defer d.mu.Unlock()
	if d.fault("CreateBuffer") {
		return core1_0.Buffer{}, core1_0.VKErrorOutOfHostMemory, core1_0.VKErrorOutOfHostMemory.ToError()
	}
	d.nextID++
	r := &simRes{id: d.nextID, size: d.nextReq.Size, align: d.nextReq.Alignment, typeBits: d.nextReq.MemoryTypeBits, live: true}
	d.res = append(d.res, r)
	return core1_0.InternalBuffer(d.dev.Handle(), loader.VkBuffer(uintptr(0x200000+r.id)), common.Vulkan1_0), core1_0.VKSuccess, nil
}

func (d *simDevice) DestroyBuffer(b core1_0.Buffer, cb *loader.AllocationCallbacks) {
	verifYield()
	d.mu.Lock()
	defer d.mu.Unlock()
	d.calls++
	r := d.resOfBuffer(b)
	if r == nil || !r.live {
		d.flag("vkDestroyBuffer: buffer is not live")
		return
	}
	r.live = false
}

func (d *simDevice) GetBufferMemoryRequirements(b core1_0.Buffer) *core1_0.MemoryRequirements {
	verifYield()
	d.mu.Lock()
	defer d.mu.Unlock()
	d.calls++
	r := d.resOfBuffer(b)
	if r == nil || !r.live {
		d.flag("vkGetBufferMemoryRequirements: buffer is not live")
		return &core1_0.MemoryRequirements{}
	}
	return &core1_0.MemoryRequirements{Size: r.size, Alignment: r.align, MemoryTypeBits: r.typeBits}
}

func (d *simDevice) bind(what string, r *simRes, memory core1_0.DeviceMemory, offset int) {
	m := d.memOf(memory)
	if r == nil || !r.live {
		d.flag(what + ": resource is not live")
		return
	}
	if m == nil || !m.live {
		d.flag(what + ": memory object is not live")
		return
	}
	if r.boundTo != nil {
		d.flag(what + ": resource is already bound")
	}
	if r.align > 0 && offset%r.align != 0 {
		d.flag(what + ": offset does not satisfy the resource's alignment")
	}
	if offset < 0 || offset+r.size > m.size {
		d.flag(what + ": resource does not fit inside the memory object")
	}
	if r.typeBits&(1<<uint(m.typeIndex)) == 0 {
		d.flag(what + ": memory type is not allowed for the resource")
	}
	r.boundTo, r.boundOff = m, offset
}

func (d *simDevice) BindBufferMemory(b core1_0.Buffer, memory core1_0.DeviceMemory, offset int) (common.VkResult, error) {
	verifYield()
	d.mu.Lock()
	defer d.mu.Unlock()
	if d.fault("BindBufferMemory") {
		return core1_0.VKErrorOutOfDeviceMemory, core1_0.VKErrorOutOfDeviceMemory.ToError()
	}
	d.bind("vkBindBufferMemory", d.resOfBuffer(b), memory, offset)
	return core1_0.VKSuccess, nil
}

func (d *simDevice) CreateImage(cb *loader.AllocationCallbacks, o core1_0.ImageCreateInfo) (core1_0.Image, common.VkResult, error) {
	verifYield()
	d.mu.Lock()
	defer d.mu.Unlock()
	if d.fault("CreateImage") {
		return core1_0.Image{}, core1_0.VKErrorOutOfHostMemory, core1_0.VKErrorOutOfHostMemory.ToError()
	}
	d.nextID++
	r := &simRes{id: d.nextID, isImage: true, size: d.nextReq.Size, align: d.nextReq.Alignment, typeBits: d.nextReq.MemoryTypeBits, live: true}
	d.res = append(d.res, r)
	return core1_0.InternalImage(d.dev.Handle(), loader.VkImage(uintptr(0x300000+r.id)), common.Vulkan1_0), core1_0.VKSuccess, nil
}

func (d *simDevice) DestroyImage(i core1_0.Image, cb *loader.AllocationCallbacks) {
	verifYield()
	d.mu.Lock()
	defer d.mu.Unlock()
	d.calls++
	r := d.resOfImage(i)
	if r == nil || !r.live {
		d.flag("vkDestroyImage: image is not live")
		return
	}
	r.live = false
}

func (d *simDevice) GetImageMemoryRequirements(i core1_0.Image) *core1_0.MemoryRequirements {
	verifYield()
	d.mu.Lock()
	defer d.mu.Unlock()
	d.calls++
	r := d.resOfImage(i)
	if r == nil || !r.live {
		d.flag("vkGetImageMemoryRequirements: image is not live")
		return &core1_0.MemoryRequirements{}
	}
	return &core1_0.MemoryRequirements{Size: r.size, Alignment: r.align, MemoryTypeBits: r.typeBits}
}

func (d *simDevice) BindImageMemory(i core1_0.Image, memory core1_0.DeviceMemory, offset int) (common.VkResult, error) {
	verifYield()
	d.mu.Lock()
	defer d.mu.Unlock()
	if d.fault("BindImageMemory") {
		return core1_0.VKErrorOutOfDeviceMemory, core1_0.VKErrorOutOfDeviceMemory.ToError()
	}
	d.bind("vkBindImageMemory", d.resOfImage(i), memory, offset)
	return core1_0.VKSuccess, nil
}

// ---------------------------------------------------------------------------------------------

type simCfg struct {
	types       []core1_0.MemoryType
	heaps       []core1_0.MemoryHeap
	granularity int
	atom        int
	maxAllocs   int
	integrated  bool
	deviceExts  []string
}

func newSim(c simCfg) *simDevice {
	limits := &core1_0.PhysicalDeviceLimits{}
	limits.BufferImageGranularity = c.granularity
	limits.NonCoherentAtomSize = c.atom
	limits.MaxMemoryAllocationCount = c.maxAllocs
	props := &core1_0.PhysicalDeviceProperties{Limits: limits, DriverType: core1_0.PhysicalDeviceTypeDiscreteGPU}
	if c.integrated {
		props.DriverType = core1_0.PhysicalDeviceTypeIntegratedGPU
	}
	inst := &simInstance{
		inst:     core1_0.InternalInstance(loader.VkInstance(uintptr(0x11)), common.Vulkan1_0, nil),
		props:    props,
		memProps: &core1_0.PhysicalDeviceMemoryProperties{MemoryTypes: c.types, MemoryHeaps: c.heaps},
	}
	d := &simDevice{inst: inst}
	d.dev = core1_0.InternalDevice(loader.VkDevice(uintptr(0x22)), common.Vulkan1_0, c.deviceExts)
	d.pd = core1_0.InternalPhysicalDevice(loader.VkPhysicalDevice(uintptr(0x33)), common.Vulkan1_0, common.Vulkan1_0)
	return d
}
