//go:build verif_harness

package vam

import (
	"github.com/vkngwrapper/arsenal/memutils/defrag"
	"github.com/vkngwrapper/core/v3/core1_0"
)

// Defragmentation through the public vam API (C07 vam layer, C02 / C14 after relocation, C15 statistics).
// A custom TLSF pool with explicit 256-byte blocks is filled so that allocations spill into a second (third) block,
// holes are freed in the first block(s), then a complete defragmentation run is driven.

type vloc struct {
	mem uintptr // device memory handle
	off int
}

func (w *vWorld) locOf(v *vAlloc) vloc {
	return vloc{uintptr(v.a.Memory().Handle()), v.a.FindOffset()}
}

func (w *vWorld) poolAlloc(pool *Pool, name string, lo, hi int, mapped bool) *vAlloc {
	size := lo
	if hi > lo {
		size = verifNondetInt(name)
		verifAssume(size >= lo)
		verifAssume(size <= hi)
	}
	flags := AllocationCreateHostAccessRandom
	if mapped {
		flags |= AllocationCreateMapped
	}
	reqs := core1_0.MemoryRequirements{Size: size, Alignment: 1, MemoryTypeBits: 0xF}
	a := &Allocation{}
	ud := new(int)
	var err error
	p := verifCatch(func() {
		_, err = w.al.AllocateMemory(&reqs, AllocationCreateInfo{Flags: flags, Pool: pool, UserData: ud}, a)
	})
	verifAssume(!p)
	verifAssume(err == nil)
	v := &vAlloc{a: a, reqSize: size, reqAlign: 1, typeBits: 1 << uint(pool.blockList.memoryTypeIndex), pool: pool, mappedReq: mapped, mapAllow: true, ud: ud,
		minAlign: int(pool.blockList.minAllocationAlignment)}
	w.live = append(w.live, v)
	return v
}

// vDefrag: cfg%32 device variant; cfg/32%2: algorithm (0 full, 1 fast); cfg/64%4: layout (0: four allocations,
// 1: five allocations, 2: mapped-neighbour layout, 3: four allocations in a pool with MinAllocationAlignment 32).
func vDefrag(prop int, cfg int) {
	w := newWorld(prop, cfg%32)
	flags := DefragmentationFlagAlgorithmFull
	if (cfg/32)%2 == 1 {
		flags = DefragmentationFlagAlgorithmFast
	}
	var pool *Pool
	var err error
	layout := (cfg / 64) % 4
	poolMinAlign := 0
	if layout == 3 {
		poolMinAlign = 32 // a pool minimum alignment larger than every requested alignment
	}
	p := verifCatch(func() {
		pool, _, err = w.al.CreatePool(PoolCreateInfo{MemoryTypeIndex: tHostCoh, BlockSize: 256, MaxBlockCount: 3, MinAllocationAlignment: uint(poolMinAlign)})
	})
	verifAssume(!p)
	verifAssume(err == nil)
	w.pools = append(w.pools, pool)
	persistent := verifChoice("persistentlyMapped", 2) == 1
	if layout == 2 {
		// mapped-neighbour layout: block 0 = 100, 100, hole candidate; block 1 = a persistently mapped allocation and a
		// plain mappable neighbour; the hole is freed, so that an allocation of block 1 is relocated into block 0
		w.poolAlloc(pool, "c0", 100, 100, false)
		w.poolAlloc(pool, "c1", 100, 100, persistent)
		h := w.poolAlloc(pool, "hole", 30, 56, false)
		w.poolAlloc(pool, "pm", 100, 100, true)
		w.poolAlloc(pool, "nb", 1, 50, false)
		verifAssume(pool.blockList.BlockCount() >= 2)
		w.freeV(h)
	} else {
		// block 0: three allocations that fill most of it; block 1: one or two more
		var a0, a1, a2, a3 *vAlloc
		if layout == 3 { // fewer symbolic sizes: the alignment masks make these queries expensive
			a0 = w.poolAlloc(pool, "s0", 1, 90, false)
			a1 = w.poolAlloc(pool, "s1", 40, 40, persistent)
			a2 = w.poolAlloc(pool, "s2", 50, 50, false)
			a3 = w.poolAlloc(pool, "s3", 1, 60, persistent)
		} else {
			a0 = w.poolAlloc(pool, "s0", 1, 120, false)
			a1 = w.poolAlloc(pool, "s1", 1, 120, persistent)
			a2 = w.poolAlloc(pool, "s2", 1, 120, false)
			a3 = w.poolAlloc(pool, "s3", 1, 200, persistent)
		}
		_ = a1
		_ = a3
		if layout == 1 {
			w.poolAlloc(pool, "s4", 1, 200, false)
		}
		verifAssume(pool.blockList.BlockCount() >= 2)
		// holes
		switch verifChoice("holes", 3) {
		case 0:
			w.freeV(a0)
		case 1:
			w.freeV(a2)
		case 2:
			w.freeV(a0)
			w.freeV(a2)
		}
	}
	w.oracleC02("C" + pname(prop) + "/defrag/before")

	ctx := &DefragmentationContext{}
	p = verifCatch(func() {
		_, err = w.al.BeginDefragmentation(DefragmentationInfo{Flags: flags, Pool: pool}, ctx)
	})
	verifAssert("C07/vam/begin-does-not-panic", !p)
	if p || err != nil {
		return
	}
	copiedBytes, copied := 0, 0
	maxPasses := 3
	finished := false
	for pass := 0; pass < maxPasses && !finished; pass++ {
		var moves []defrag.DefragmentationMove[Allocation]
		p = verifCatch(func() { moves = ctx.BeginDefragPass() })
		verifAssert("C07/vam/begin-pass-does-not-panic", !p)
		if p {
			return
		}
		// ---- between collect and complete
		okSrc := true
		var srcs []*vAlloc
		dst := make([]vloc, len(moves))
		before := make([]vloc, len(w.live))
		for i, v := range w.live {
			before[i] = w.locOf(v)
		}
		usersBefore := append([]*vAlloc{}, w.live...)
		for i := range moves {
			var src *vAlloc
			for _, v := range w.live {
				if v.a == moves[i].SrcAllocation {
					src = v
				}
			}
			okSrc = okSrc && src != nil
			for _, s := range srcs {
				okSrc = okSrc && s != src
			}
			srcs = append(srcs, src)
			if moves[i].DstTmpAllocation != nil && moves[i].DstTmpAllocation.memory != nil {
				dst[i] = vloc{uintptr(moves[i].DstTmpAllocation.Memory().Handle()), moves[i].DstTmpAllocation.FindOffset()}
			} else {
				okSrc = false
			}
		}
		verifAssert("C07/vam/sources-are-distinct-live-caller-allocations", okSrc)
		if !okSrc {
			return
		}
		// destination ranges are reserved: they overlap no live caller allocation
		okDst := true
		for i := range moves {
			for j, v := range w.live {
				if before[j].mem == dst[i].mem {
					okDst = verifAnd(okDst, verifOr(dst[i].off+moves[i].Size <= before[j].off, before[j].off+v.a.Size() <= dst[i].off))
				}
			}
			for k := 0; k < i; k++ {
				if dst[k].mem == dst[i].mem {
					okDst = verifAnd(okDst, verifOr(dst[i].off+moves[i].Size <= dst[k].off, dst[k].off+moves[k].Size <= dst[i].off))
				}
			}
			// forward only (C15)
		}
		verifAssert("C07/vam/destination-ranges-are-reserved", okDst)

		op := defrag.DefragmentationMoveCopy
		if verifTier() == 1 {
			op = defrag.DefragmentationMoveOperation(verifChoice("passOp", 3))
		}
		for i := range moves {
			moves[i].MoveOperation = op
			if op == defrag.DefragmentationMoveCopy {
				copied++
				copiedBytes += moves[i].Size
			}
		}
		p = verifCatch(func() { finished, err = ctx.EndDefragPass() })
		verifAssert("C07/vam/end-pass-does-not-panic", !p)
		if p {
			return
		}
		verifAssert("C07/vam/end-pass-returns-no-error", err == nil)
		if op == defrag.DefragmentationMoveDestroy {
			nl := make([]*vAlloc, 0, len(w.live))
			for _, v := range w.live {
				gone := false
				for _, s := range srcs {
					if s == v {
						gone = true
					}
				}
				if !gone {
					nl = append(nl, v)
				}
			}
			w.live = nl
		}
		// outcome per allocation
		okOut := true
		for i, v := range usersBefore {
			mi := -1
			for k, s := range srcs {
				if s == v {
					mi = k
				}
			}
			if mi >= 0 && op == defrag.DefragmentationMoveDestroy {
				continue
			}
			now := w.locOf(v)
			if mi >= 0 && op == defrag.DefragmentationMoveCopy {
				okOut = verifAnd(okOut, now.mem == dst[mi].mem)
				okOut = verifAnd(okOut, now.off == dst[mi].off)
			} else {
				okOut = verifAnd(okOut, now.mem == before[i].mem)
				okOut = verifAnd(okOut, now.off == before[i].off)
			}
			okOut = verifAnd(okOut, v.a.Size() >= v.reqSize)
			okOut = verifAnd(okOut, v.a.UserData() == any(v.ud))
		}
		verifAssert("C07/vam/copied-at-destination-ignored-and-unnamed-untouched", okOut)
		w.oracleC02("C" + pname(prop) + "/defrag/invariants-at-pass-boundary")
		if prop == 14 {
			for _, v := range w.live {
				mw := &mapWorld{vWorld: w, ghostMaps: map[*simMem]int{}}
				if mw.mapIt(v) {
					mw.unmapIt(v)
				}
			}
			// persistently mapped allocations keep their memory mapped wherever they are now
			okMap := true
			for _, v := range w.live {
				if v.mappedReq {
					m := w.dev.memOf(v.a.Memory())
					okMap = okMap && m != nil && m.live && m.mapped
				}
			}
			verifAssert("C14/defrag/persistently-mapped-allocations-stay-mapped-after-relocation", okMap)
		}
		if prop == 8 {
			verifAssert("C08/defrag/only-valid-driver-calls", len(w.dev.vu) == 0)
		}
		if len(moves) == 0 {
			finished = true
		}
	}
	var stats defrag.DefragmentationStats
	p = verifCatch(func() { ctx.Finish(&stats) })
	verifAssert("C07/vam/finish-does-not-panic", !p)
	if finished {
		verifAssert("C15/vam/final-statistics-equal-the-moves-carried-out", verifAnd(stats.AllocationsMoved == copied, stats.BytesMoved == copiedBytes))
		verifReach("run-finished")
	} else {
		verifReach("pass-bound-reached")
	}
	if prop == 4 {
		w.oracleC04("C04/defrag/after-run")
	}
	// everything can still be freed and torn down
	for len(w.live) > 0 {
		n := len(w.live)
		w.freeV(w.live[0])
		if len(w.live) == n {
			break
		}
	}
	if prop == 8 {
		verifAssert("C08/defrag/only-valid-driver-calls-until-teardown", len(w.dev.vu) == 0)
	}
	verifReach("end")
}

func (w *vWorld) freeV(v *vAlloc) {
	for i := range w.live {
		if w.live[i] == v {
			w.free(i)
			return
		}
	}
}

func Verif_C07_VDefrag(cfg int) { vDefrag(7, cfg) }
func Verif_C02_VDefrag(cfg int) { vDefrag(2, cfg) }
func Verif_C14_VDefrag(cfg int) { vDefrag(14, cfg) }
func Verif_C08_VDefrag(cfg int) { vDefrag(8, cfg) }
func Verif_C04_VDefrag(cfg int) { vDefrag(4, cfg) }
func Verif_C15_VDefrag(cfg int) { vDefrag(15, cfg) }

// ---- C15 (vam layer): a DefragmentationContext reused for a second run behaves like a fresh one -----------------

type runSummary struct {
	moves []int // per pass: number of proposed moves, then for each move size and destination offset
	stats defrag.DefragmentationStats
	ok    bool
}

// runAll drives a complete run (every move copied) and records what was proposed.
func (w *vWorld) runAll(ctx *DefragmentationContext, pool *Pool, flags DefragmentationFlags) runSummary {
	var s runSummary
	var err error
	p := verifCatch(func() {
		_, err = w.al.BeginDefragmentation(DefragmentationInfo{Flags: flags, Pool: pool}, ctx)
	})
	if p || err != nil {
		return s
	}
	for pass := 0; pass < 3; pass++ {
		var moves []defrag.DefragmentationMove[Allocation]
		if verifCatch(func() { moves = ctx.BeginDefragPass() }) {
			return s
		}
		s.moves = append(s.moves, len(moves))
		for i := range moves {
			s.moves = append(s.moves, moves[i].Size)
			if moves[i].DstTmpAllocation != nil && moves[i].DstTmpAllocation.memory != nil {
				s.moves = append(s.moves, moves[i].DstTmpAllocation.FindOffset())
			}
		}
		finished := false
		if verifCatch(func() { finished, err = ctx.EndDefragPass() }) || err != nil {
			return s
		}
		if finished || len(moves) == 0 {
			break
		}
	}
	if verifCatch(func() { ctx.Finish(&s.stats) }) {
		return s
	}
	s.ok = true
	return s
}

func Verif_C15_VReuse(cfg int) {
	flags := DefragmentationFlagAlgorithmFull
	if (cfg/32)%2 == 1 {
		flags = DefragmentationFlagAlgorithmFast
	}
	sizes := make([]int, 4)
	for i := range sizes {
		sizes[i] = verifNondetInt("size")
		verifAssume(sizes[i] >= 1)
		verifAssume(sizes[i] <= 120)
	}
	build := func() (*vWorld, *Pool, []*vAlloc) {
		w := newWorld(15, cfg%32)
		var pool *Pool
		var err error
		p := verifCatch(func() {
			pool, _, err = w.al.CreatePool(PoolCreateInfo{MemoryTypeIndex: tHostCoh, BlockSize: 256, MaxBlockCount: 3})
		})
		verifAssume(!p)
		verifAssume(err == nil)
		var as []*vAlloc
		for i := range sizes {
			reqs := core1_0.MemoryRequirements{Size: sizes[i], Alignment: 1, MemoryTypeBits: 0xF}
			a := &Allocation{}
			_, err := w.al.AllocateMemory(&reqs, AllocationCreateInfo{Flags: AllocationCreateHostAccessRandom, Pool: pool}, a)
			verifAssume(err == nil)
			v := &vAlloc{a: a, reqSize: sizes[i], reqAlign: 1, typeBits: 2, pool: pool}
			w.live = append(w.live, v)
			as = append(as, v)
		}
		verifAssume(pool.blockList.BlockCount() >= 2)
		return w, pool, as
	}
	wa, pa, aa := build()
	wb, pb, ab := build()
	// first run in both worlds after the same hole is made
	wa.freeV(aa[0])
	wb.freeV(ab[0])
	reused := &DefragmentationContext{}
	first := &DefragmentationContext{}
	ra := wa.runAll(reused, pa, flags)
	rb := wb.runAll(first, pb, flags)
	verifAssume(ra.ok)
	verifAssume(rb.ok)
	// a second hole, then a second run: world A reuses its context, world B takes a fresh one
	wa.freeV(aa[1])
	wb.freeV(ab[1])
	ra2 := wa.runAll(reused, pa, flags)
	rb2 := wb.runAll(&DefragmentationContext{}, pb, flags)
	same := ra2.ok == rb2.ok && len(ra2.moves) == len(rb2.moves)
	if same {
		for i := range ra2.moves {
			same = verifAnd(same, ra2.moves[i] == rb2.moves[i])
		}
	}
	verifAssert("C15/vam/reused-context-proposes-the-same-moves-as-a-fresh-one", same)
	st := verifAnd(ra2.stats.BytesMoved == rb2.stats.BytesMoved, ra2.stats.AllocationsMoved == rb2.stats.AllocationsMoved)
	verifAssert("C15/vam/reused-context-reports-the-statistics-of-its-own-run", st)
	verifReach("end")
}
