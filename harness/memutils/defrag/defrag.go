//go:build verif_harness

package defrag

import (
	"github.com/vkngwrapper/arsenal/memutils"
	"github.com/vkngwrapper/arsenal/memutils/metadata"
)

// Harness for C07 / C15 at the memutils layer: a small BlockList over real TLSF metadata, written from the
// documentation of the BlockList interface, driven through the real MetadataDefragContext.

type hGran struct{}

func (c hGran) AllocRegions(allocType uint32, offset, size int) {}
func (c hGran) FreeRegions(offset, size int)                    {}
func (c hGran) Clear()                                          {}
func (c hGran) CheckConflictAndAlignUp(allocOffset, allocSize, regionOffset, regionSize int, allocType uint32) (int, bool) {
	return allocOffset, false
}
func (c hGran) RoundUpAllocRequest(allocType uint32, allocSize int, allocAlignment uint) (int, uint) {
	return allocSize, allocAlignment
}
func (c hGran) AllocationsConflict(a uint32, b uint32) bool { return false }
func (c hGran) StartValidation() any                        { return nil }
func (c hGran) Validate(ctx any, offset, size int) error    { return nil }
func (c hGran) FinishValidation(ctx any) error              { return nil }

type hBlock struct {
	md *metadata.TLSFBlockMetadata
	id int
}

// hAlloc is the consumer-side allocation object (T of BlockList[T]).
type hAlloc struct {
	blk   *hBlock
	h     metadata.BlockAllocationHandle
	size  int
	align uint
	typ   uint32
	temp  bool
	ud    *int // the caller's user data: must survive every move
}

type hList struct {
	blocks    []*hBlock
	lockDepth int
	lockErr   bool
}

func (l *hList) MetadataForBlock(index int) metadata.BlockMetadata { return l.blocks[index].md }
func (l *hList) BlockCount() int                                   { return len(l.blocks) }
func (l *hList) AddStatistics(stats *memutils.Statistics) {
	for _, b := range l.blocks {
		b.md.AddStatistics(stats)
	}
}
func (l *hList) MoveDataForUserData(userData any) MoveAllocationData[hAlloc] {
	a := userData.(*hAlloc)
	return MoveAllocationData[hAlloc]{
		Alignment: a.align, SuballocationType: a.typ,
		Move: DefragmentationMove[hAlloc]{Size: a.size, SrcAllocation: a, SrcBlockMetadata: a.blk.md},
	}
}
func (l *hList) BufferImageGranularity() int { return 1 }
func (l *hList) Lock() {
	if l.lockDepth != 0 {
		l.lockErr = true
	}
	l.lockDepth++
}
func (l *hList) Unlock() {
	if l.lockDepth != 1 {
		l.lockErr = true
	}
	l.lockDepth--
}
func (l *hList) CreateAlloc() *hAlloc { return &hAlloc{} }
func (l *hList) CommitDefragAllocationRequest(req metadata.AllocationRequest, blockIndex int, alignment uint, flags uint32, userData any, suballocType uint32, out *hAlloc) error {
	b := l.blocks[blockIndex]
	if err := b.md.Alloc(req, suballocType, userData); err != nil {
		return err
	}
	out.blk, out.h, out.size, out.align, out.typ, out.temp = b, req.BlockAllocationHandle, req.Size, alignment, suballocType, true
	return nil
}
func (l *hList) SwapBlocks(i, j int) { l.blocks[i], l.blocks[j] = l.blocks[j], l.blocks[i] }

func (l *hList) indexOf(b *hBlock) int {
	for i := range l.blocks {
		if l.blocks[i] == b {
			return i
		}
	}
	return -1
}

// hHandler carries out one move the way the documentation of DefragmentationMove prescribes.
func hHandler(move DefragmentationMove[hAlloc]) error {
	src, dst := move.SrcAllocation, move.DstTmpAllocation
	switch move.MoveOperation {
	case DefragmentationMoveCopy:
		if err := src.blk.md.SetAllocationUserData(src.h, dst); err != nil {
			return err
		}
		src.blk, dst.blk = dst.blk, src.blk
		src.h, dst.h = dst.h, src.h
		if err := src.blk.md.SetAllocationUserData(src.h, src); err != nil {
			return err
		}
	case DefragmentationMoveDestroy:
		if err := src.blk.md.Free(src.h); err != nil {
			return err
		}
		src.blk = nil
	}
	err := dst.blk.md.Free(dst.h)
	dst.blk = nil
	return err
}

type hWorld struct {
	list *hList
	user []*hAlloc // live caller allocations
	B    int
}

func (w *hWorld) alloc(block int, name string, symAlign bool) *hAlloc {
	size := verifNondetInt(name)
	verifAssume(size >= 1)
	verifAssume(size <= w.B)
	align := 1
	if symAlign {
		k := verifNondetInt(name + "AlignLog")
		verifAssume(k >= 0)
		verifAssume(k <= 4)
		for i := 1; i <= 4; i++ {
			align = verifIte(k == i, 1<<i, align)
		}
	}
	b := w.list.blocks[block]
	ok, req, err := b.md.CreateAllocationRequest(size, uint(align), false, 1, 0, int(^uint(0)>>1))
	verifAssume(err == nil)
	verifAssume(ok)
	a := &hAlloc{blk: b, size: size, align: uint(align), typ: 1, ud: new(int)}
	verifAssume(b.md.Alloc(req, 1, a) == nil)
	a.h = req.BlockAllocationHandle
	w.user = append(w.user, a)
	return a
}

func (w *hWorld) freeUser(i int) {
	a := w.user[i]
	verifAssume(a.blk.md.Free(a.h) == nil)
	nu := make([]*hAlloc, 0, len(w.user))
	for j := range w.user {
		if j != i {
			nu = append(nu, w.user[j])
		}
	}
	w.user = nu
}

type loc struct {
	blk *hBlock
	off int
}

func (w *hWorld) locOf(a *hAlloc) loc {
	off, _ := a.blk.md.AllocationOffset(a.h)
	return loc{a.blk, off}
}

// invariants: every live caller allocation resolves to itself, is inside its block, aligned, keeps its size, and
// no two allocations of a block (temporaries included) overlap; each block's self check is clean.
func (w *hWorld) invariants(label string, temps []*hAlloc, validate bool) {
	ok := true
	all := append(append([]*hAlloc{}, w.user...), temps...)
	for i, a := range all {
		ud, err := a.blk.md.AllocationUserData(a.h)
		ok = verifAnd(ok, err == nil)
		if i < len(w.user) {
			ok = verifAnd(ok, ud == any(a))
		}
		off, err2 := a.blk.md.AllocationOffset(a.h)
		ok = verifAnd(ok, err2 == nil)
		ok = verifAnd(ok, off >= 0)
		ok = verifAnd(ok, off+a.size <= w.B)
		ok = verifAnd(ok, off&(int(a.align)-1) == 0)
		for j := i + 1; j < len(all); j++ {
			b := all[j]
			if b.blk != a.blk {
				continue
			}
			offb, _ := b.blk.md.AllocationOffset(b.h)
			ok = verifAnd(ok, verifOr(off+a.size <= offb, offb+b.size <= off))
		}
	}
	total := 0
	for _, b := range w.list.blocks {
		if validate {
			ok = verifAnd(ok, b.md.Validate() == nil)
		}
		total += b.md.AllocationCount()
	}
	ok = verifAnd(ok, total == len(all))
	verifAssert(label, ok)
}

// defragRun drives one complete defragmentation run (at most maxPasses passes) and checks C07 and C15 on it.
// It returns the moves proposed per pass as (src user-data identity, dst block id, dst offset) for the reuse comparison.
type proposed struct {
	src      *int
	dstBlock int
	dstOff   int
}

func (w *hWorld) defragRun(ctx *MetadataDefragContext[hAlloc], tag string, maxPasses int, symLimits bool, decide bool) [][]proposed {
	var all [][]proposed
	maxBytes, maxAllocs := int(^uint(0)>>1), int(^uint(0)>>1)
	if symLimits {
		maxBytes = verifNondetInt("maxPassBytes")
		verifAssume(maxBytes >= 1)
		verifAssume(maxBytes <= 4*w.B)
		maxAllocs = verifNondetInt("maxPassAllocations")
		verifAssume(maxAllocs >= 1)
		verifAssume(maxAllocs <= 8)
	}
	var ignored []*hAlloc // sources whose move was ignored earlier in this run
	for p := 0; p < maxPasses; p++ {
		pass := PassContext{MaxPassBytes: maxBytes, MaxPassAllocations: maxAllocs}
		panicked := verifCatch(func() { ctx.BlockListCollectMoves(&pass) })
		verifAssert(tag+"/collect-does-not-panic", !panicked)
		if panicked {
			return all
		}
		moves := ctx.Moves()
		if len(moves) == 0 {
			verifReach("run-finished")
			return all
		}
		// ---- between collect and complete
		var temps []*hAlloc
		var props []proposed
		srcLoc := make([]loc, len(moves))
		dstLoc := make([]loc, len(moves))
		sumBytes := 0
		okSrc, fwd := true, true
		for i := range moves {
			mv := moves[i]
			temps = append(temps, mv.DstTmpAllocation)
			isUser := false
			for _, u := range w.user {
				if u == mv.SrcAllocation {
					isUser = true
				}
			}
			okSrc = verifAnd(okSrc, isUser)
			okSrc = verifAnd(okSrc, !mv.SrcAllocation.temp)
			for j := 0; j < i; j++ {
				okSrc = verifAnd(okSrc, moves[j].SrcAllocation != mv.SrcAllocation)
			}
			okSrc = verifAnd(okSrc, mv.Size == mv.SrcAllocation.size)
			if !isUser {
				continue
			}
			srcLoc[i] = w.locOf(mv.SrcAllocation)
			dstLoc[i] = w.locOf(mv.DstTmpAllocation)
			// destination is reserved with the defragmentation sentinel as its user data
			dud, derr := mv.DstTmpAllocation.blk.md.AllocationUserData(mv.DstTmpAllocation.h)
			okSrc = verifAnd(okSrc, derr == nil)
			okSrc = verifAnd(okSrc, dud == any(ctx))
			okSrc = verifAnd(okSrc, mv.DstBlockMetadata == metadata.BlockMetadata(mv.DstTmpAllocation.blk.md))
			okSrc = verifAnd(okSrc, mv.SrcBlockMetadata == metadata.BlockMetadata(mv.SrcAllocation.blk.md))
			sumBytes += mv.Size
			si, di := w.list.indexOf(srcLoc[i].blk), w.list.indexOf(dstLoc[i].blk)
			if di > si {
				fwd = false
			} else if di == si {
				fwd = verifAnd(fwd, dstLoc[i].off < srcLoc[i].off)
			}
			props = append(props, proposed{mv.SrcAllocation.ud, dstLoc[i].blk.id, dstLoc[i].off})
		}
		all = append(all, props)
		verifAssert("C07"+tag+"/sources-are-distinct-live-caller-allocations", okSrc)
		if !okSrc {
			return all
		}
		w.invariants("C07"+tag+"/source-and-destination-reserved-between-collect-and-complete", temps, verifTier() == 1)
		verifAssert("C15"+tag+"/every-move-goes-to-an-earlier-block-or-lower-offset", fwd)
		// termination measure: copies strictly decrease (block, offset), destroys decrease the allocation count, and an
		// allocation whose move was ignored must never be proposed again in this run (otherwise a caller that keeps
		// answering "ignore" is handed the same move forever)
		again := false
		for i := range moves {
			for _, ig := range ignored {
				if moves[i].SrcAllocation == ig {
					again = true
				}
			}
		}
		verifAssert("C15"+tag+"/an-ignored-move-is-not-proposed-again", !again)
		verifAssert("C15"+tag+"/pass-byte-limit-respected", sumBytes <= maxBytes)
		verifAssert("C15"+tag+"/pass-allocation-limit-respected", len(moves) <= maxAllocs)
		verifAssert("C07"+tag+"/block-list-lock-balanced", verifAnd(!w.list.lockErr, w.list.lockDepth == 0))

		// ---- caller decides per move
		ops := make([]DefragmentationMoveOperation, len(moves))
		before := make([]loc, len(w.user))
		for i, u := range w.user {
			before[i] = w.locOf(u)
		}
		usersBefore := append([]*hAlloc{}, w.user...)
		copiedBytes, copied := 0, 0
		passOp := DefragmentationMoveCopy
		if decide && verifTier() == 0 { // quick: one decision per pass, applied to every move of the pass
			passOp = DefragmentationMoveOperation(verifChoice("passOp", 3))
		}
		for i := range moves {
			op := passOp
			if decide && verifTier() == 1 {
				op = DefragmentationMoveOperation(verifChoice("moveOp", 3))
			}
			ops[i] = op
			moves[i].MoveOperation = op
			if op == DefragmentationMoveCopy {
				copied++
				copiedBytes += moves[i].Size
			}
		}
		srcs := make([]*hAlloc, len(moves))
		for i := range moves {
			srcs[i] = moves[i].SrcAllocation
			if ops[i] == DefragmentationMoveIgnore {
				ignored = append(ignored, srcs[i])
			}
		}
		var err error
		panicked = verifCatch(func() { err = ctx.BlockListCompletePass(&pass) })
		verifAssert("C07"+tag+"/complete-does-not-panic", !panicked)
		if panicked {
			return all
		}
		verifAssert("C07"+tag+"/complete-returns-no-error", err == nil)
		// destroyed allocations are gone
		nu := make([]*hAlloc, 0, len(w.user))
		for _, u := range w.user {
			destroyed := false
			for i := range srcs {
				if srcs[i] == u && ops[i] == DefragmentationMoveDestroy {
					destroyed = true
				}
			}
			if !destroyed {
				nu = append(nu, u)
			}
		}
		w.user = nu
		w.invariants("C07"+tag+"/invariants-at-pass-boundary", nil, true)
		// outcome per allocation
		okOut := true
		for i, u := range usersBefore {
			mi := -1
			for k := range srcs {
				if srcs[k] == u {
					mi = k
				}
			}
			if mi >= 0 && ops[mi] == DefragmentationMoveDestroy {
				continue
			}
			now := w.locOf(u)
			switch {
			case mi < 0 || ops[mi] == DefragmentationMoveIgnore:
				okOut = verifAnd(okOut, now.blk == before[i].blk)
				okOut = verifAnd(okOut, now.off == before[i].off)
			default:
				okOut = verifAnd(okOut, now.blk == dstLoc[mi].blk)
				okOut = verifAnd(okOut, now.off == dstLoc[mi].off)
			}
		}
		verifAssert("C07"+tag+"/copied-at-destination-ignored-and-unnamed-untouched", okOut)
		st := verifAnd(pass.Stats.BytesMoved == copiedBytes, pass.Stats.AllocationsMoved == copied)
		verifAssert("C15"+tag+"/pass-statistics-equal-moves-carried-out", st)
	}
	verifReach("pass-bound-reached")
	return all
}

func newWorld(nblocks, B int) *hWorld {
	l := &hList{}
	for i := 0; i < nblocks; i++ {
		md := metadata.NewTLSFBlockMetadata(1, hGran{})
		md.Init(B)
		l.blocks = append(l.blocks, &hBlock{md, i})
	}
	return &hWorld{list: l, B: B}
}

// recipe: per block n allocations (symbolic sizes, one symbolic alignment), then a chosen subset is freed.
func (w *hWorld) recipe(perBlock []int, maxFrees int) {
	for b, n := range perBlock {
		for i := 0; i < n; i++ {
			w.alloc(b, "size", b == 0 && i == 1 && verifTier() == 1)
		}
	}
	nf := 1
	if verifTier() == 1 {
		nf = verifChoice("recipeFrees", maxFrees+1)
	}
	for i := 0; i < nf && len(w.user) > 1; i++ {
		w.freeUser(verifChoice("recipeVictim", len(w.user)))
	}
}

// Verif_Defrag_Run: cfg%2 = algorithm (0 full, 1 fast); cfg/2%3 = layout (0: one block, 1: two blocks, 2: three blocks).
func Verif_Defrag_Run(cfg int) {
	alg := AlgorithmFull
	if cfg%2 == 1 {
		alg = AlgorithmFast
	}
	var w *hWorld
	thorough := verifTier() == 1
	switch (cfg / 2) % 3 {
	case 0:
		w = newWorld(1, 256)
		if thorough {
			w.recipe([]int{4}, 3)
		} else {
			w.recipe([]int{3}, 2)
		}
	case 1:
		w = newWorld(2, 256)
		if thorough {
			w.recipe([]int{3, 2}, 3)
		} else {
			w.recipe([]int{2, 1}, 2)
		}
	default:
		w = newWorld(3, 256)
		if thorough {
			w.recipe([]int{2, 2, 2}, 3)
		} else {
			w.recipe([]int{1, 1, 1}, 2)
		}
	}
	ctx := &MetadataDefragContext[hAlloc]{Algorithm: alg, Handler: hHandler, BlockList: w.list}
	verifAssert("C07/init-succeeds", ctx.Init() == nil)
	passes := 2
	if thorough {
		passes = 3
	}
	w.defragRun(ctx, "", passes, cfg/6%2 == 1, true)
	verifReach("end")
}

// Verif_Defrag_Reuse (C15, last clause): a context reused for a second run behaves like a fresh one.
// Two identical worlds are built from the same symbolic inputs; world A is defragmented by a context that already
// served a complete run on another world (with an ignored move, so that it has seen immovable blocks), world B by a
// fresh context. The proposed moves must be the same.
func Verif_Defrag_Reuse(cfg int) {
	alg := AlgorithmFull
	if cfg%2 == 1 {
		alg = AlgorithmFast
	}
	// first run on a scratch world: block 1 holds one allocation that is proposed and ignored
	scratch := newWorld(2, 256)
	scratch.alloc(0, "scratchA", false)
	scratch.alloc(1, "scratchB", false)
	used := &MetadataDefragContext[hAlloc]{Algorithm: alg, Handler: hHandler, BlockList: scratch.list}
	verifAssume(used.Init() == nil)
	pass := PassContext{MaxPassBytes: int(^uint(0) >> 1), MaxPassAllocations: int(^uint(0) >> 1)}
	used.BlockListCollectMoves(&pass)
	first := used.Moves()
	for i := range first {
		first[i].MoveOperation = DefragmentationMoveIgnore
	}
	verifAssume(len(first) > 0)
	verifAssume(used.BlockListCompletePass(&pass) == nil)

	build := func() *hWorld {
		w := newWorld(2, 256)
		return w
	}
	wa, wb := build(), build()
	// identical contents: the same symbolic sizes are used for both worlds
	n0, n1 := 2, 1
	if verifTier() == 1 {
		n1 = 2
	}
	sizes := make([]int, n0+n1)
	for i := range sizes {
		sizes[i] = verifNondetInt("size")
		verifAssume(sizes[i] >= 1)
		verifAssume(sizes[i] <= 256)
	}
	fill := func(w *hWorld) {
		for i := range sizes {
			b := 0
			if i >= n0 {
				b = 1
			}
			blk := w.list.blocks[b]
			ok, req, err := blk.md.CreateAllocationRequest(sizes[i], 1, false, 1, 0, int(^uint(0)>>1))
			verifAssume(err == nil)
			verifAssume(ok)
			a := &hAlloc{blk: blk, size: sizes[i], align: 1, typ: 1, ud: new(int)}
			verifAssume(blk.md.Alloc(req, 1, a) == nil)
			a.h = req.BlockAllocationHandle
			w.user = append(w.user, a)
		}
	}
	fill(wa)
	fill(wb)
	victim := verifChoice("victim", n0)
	wa.freeUser(victim)
	wb.freeUser(victim)

	used.BlockList = wa.list
	verifAssert("C15/reuse/init-of-reused-context-succeeds", used.Init() == nil)
	fresh := &MetadataDefragContext[hAlloc]{Algorithm: alg, Handler: hHandler, BlockList: wb.list}
	verifAssume(fresh.Init() == nil)
	pa := wa.defragRun(used, "/reused", 2, false, false)
	pb := wb.defragRun(fresh, "/fresh", 2, false, false)
	same := len(pa) == len(pb)
	if same {
		for i := range pa {
			if len(pa[i]) != len(pb[i]) {
				same = false
				break
			}
			for j := range pa[i] {
				// identities differ between the worlds; positions in the user list correspond
				same = verifAnd(same, pa[i][j].dstBlock == pb[i][j].dstBlock)
				same = verifAnd(same, pa[i][j].dstOff == pb[i][j].dstOff)
			}
		}
	}
	verifAssert("C15/reuse/reused-context-proposes-the-same-moves-as-a-fresh-one", same)
	verifReach("end")
}

var verifEntries = map[string]func(int){
	"Verif_Defrag_Run":   Verif_Defrag_Run,
	"Verif_Defrag_Reuse": Verif_Defrag_Reuse,
}
