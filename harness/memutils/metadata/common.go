//go:build verif_harness

package metadata

import (
	"github.com/vkngwrapper/arsenal/memutils"
)

// ---------------------------------------------------------------------------------------------
// Shared harness library for the block-level properties (C01, C03, C05, C06, C13, C16, C17, C18).
// Everything here only uses the public BlockMetadata API of the code under test.

// nullGran is a granularity handler for memory systems without granularity rules.
type nullGran struct{}

func (c nullGran) AllocRegions(allocType uint32, offset, size int) {}
func (c nullGran) FreeRegions(offset, size int)                    {}
func (c nullGran) Clear()                                          {}
func (c nullGran) CheckConflictAndAlignUp(allocOffset, allocSize, regionOffset, regionSize int, allocType uint32) (int, bool) {
	return allocOffset, false
}
func (c nullGran) RoundUpAllocRequest(allocType uint32, allocSize int, allocAlignment uint) (int, uint) {
	return allocSize, allocAlignment
}
func (c nullGran) AllocationsConflict(a uint32, b uint32) bool { return false }
func (c nullGran) StartValidation() any                        { return nil }
func (c nullGran) Validate(ctx any, offset, size int) error    { return nil }
func (c nullGran) FinishValidation(ctx any) error              { return nil }

// ghost is the harness' own record of a live allocation.
type ghost struct {
	h     BlockAllocationHandle
	off   int // offset reported when the allocation was granted
	size  int // requested size
	align int // requested alignment
	upper bool
	ud    *int // distinct user data object per allocation
}

type region struct {
	h    BlockAllocationHandle
	off  int
	size int
	ud   any
	free bool
}

// pow2 returns a symbolic power of two 2^k, 0 <= k <= maxLog (an ite-chain: no symbolic shift).
func pow2(name string, maxLog int) int {
	k := verifNondetInt(name)
	verifAssume(k >= 0)
	verifAssume(k <= maxLog)
	a := 1
	for i := 1; i <= maxLog; i++ {
		a = verifIte(k == i, 1<<i, a)
	}
	return a
}

// regionsOf enumerates the block through the public visitor, in ascending offset order for both algorithms.
func regionsOf(m BlockMetadata, tlsf bool) []region {
	var regs []region
	_ = m.VisitAllRegions(func(handle BlockAllocationHandle, offset int, size int, userData any, free bool) error {
		regs = append(regs, region{handle, offset, size, userData, free})
		return nil
	})
	if tlsf { // TLSF enumerates from the end of the block
		for i, j := 0, len(regs)-1; i < j; i, j = i+1, j-1 {
			regs[i], regs[j] = regs[j], regs[i]
		}
	}
	return regs
}

func regionByUD(regs []region, ud *int) (region, bool) {
	for _, r := range regs {
		if !r.free {
			if p, ok := r.ud.(*int); ok && p == ud {
				return r, true
			}
		}
	}
	return region{}, false
}

func removeAt(live []ghost, i int) []ghost {
	nl := make([]ghost, 0, len(live))
	for j := range live {
		if j != i {
			nl = append(nl, live[j])
		}
	}
	return nl
}

// ---------------------------------------------------------------------------------------------
// Oracles

// oracleC01: every live allocation is in bounds, aligned, at least as large as requested and disjoint
// from every other live allocation.
func oracleC01(label string, m BlockMetadata, live []ghost, B int, tlsf bool) {
	regs := regionsOf(m, tlsf)
	ok := true
	for i := range live {
		off, err := m.AllocationOffset(live[i].h)
		ok = verifAnd(ok, err == nil)
		ok = verifAnd(ok, off >= 0)
		ok = verifAnd(ok, off+live[i].size <= B)
		ok = verifAnd(ok, off&(live[i].align-1) == 0)
		r, found := regionByUD(regs, live[i].ud)
		ok = verifAnd(ok, found)
		if found {
			ok = verifAnd(ok, r.off == off)
			ok = verifAnd(ok, r.size >= live[i].size)
		}
		for j := i + 1; j < len(live); j++ {
			offj, _ := m.AllocationOffset(live[j].h)
			ok = verifAnd(ok, verifOr(off+live[i].size <= offj, offj+live[j].size <= off))
		}
	}
	verifAssert(label, ok)
}

// oracleC03: the enumerated regions tile the block; counters and statistics match the live set; Validate is clean.
func oracleC03(label string, m BlockMetadata, live []ghost, B int, tlsf bool) {
	regs := regionsOf(m, tlsf)
	tile := true
	next := 0
	taken, takenBytes, freeBytes, freeRanges := 0, 0, 0, 0
	minA, maxA := int(^uint(0)>>1), 0
	minF, maxF := int(^uint(0)>>1), 0
	for _, r := range regs {
		tile = verifAnd(tile, r.off == next)
		tile = verifAnd(tile, r.size >= 0)
		next = r.off + r.size
		if r.free {
			// a zero-sized trailing free region (TLSF's end marker) is not an unused range
			nz := r.size > 0
			freeBytes += r.size
			freeRanges += verifIte(nz, 1, 0)
			minF = verifIte(verifAnd(nz, r.size < minF), r.size, minF)
			maxF = verifIte(verifAnd(nz, r.size > maxF), r.size, maxF)
		} else {
			taken++
			takenBytes += r.size
			minA = verifIte(r.size < minA, r.size, minA)
			maxA = verifIte(r.size > maxA, r.size, maxA)
		}
	}
	tile = verifAnd(tile, next == B)
	verifAssert(label+"/tiling", tile)

	cnt := true
	cnt = verifAnd(cnt, taken == len(live))
	cnt = verifAnd(cnt, m.AllocationCount() == len(live))
	cnt = verifAnd(cnt, m.SumFreeSize() == freeBytes)
	cnt = verifAnd(cnt, m.SumFreeSize() == B-takenBytes)
	cnt = verifAnd(cnt, m.IsEmpty() == (len(live) == 0))
	if tlsf {
		cnt = verifAnd(cnt, m.FreeRegionsCount() == freeRanges)
	}
	verifAssert(label+"/counters", cnt)

	var st memutils.Statistics
	m.AddStatistics(&st)
	s := true
	s = verifAnd(s, st.BlockCount == 1)
	s = verifAnd(s, st.BlockBytes == B)
	s = verifAnd(s, st.AllocationCount == len(live))
	s = verifAnd(s, st.AllocationBytes == takenBytes)
	var ds memutils.DetailedStatistics
	ds.Clear()
	m.AddDetailedStatistics(&ds)
	s = verifAnd(s, ds.BlockCount == 1)
	s = verifAnd(s, ds.BlockBytes == B)
	s = verifAnd(s, ds.AllocationCount == len(live))
	s = verifAnd(s, ds.AllocationBytes == takenBytes)
	s = verifAnd(s, ds.UnusedRangeCount == freeRanges)
	s = verifAnd(s, ds.AllocationSizeMin == minA)
	s = verifAnd(s, ds.AllocationSizeMax == maxA)
	s = verifAnd(s, ds.UnusedRangeSizeMin == minF)
	s = verifAnd(s, ds.UnusedRangeSizeMax == maxF)
	verifAssert(label+"/statistics", s)

	verifAssert(label+"/validate", m.Validate() == nil)
}

// snapshot of everything observable about a block, used by "nothing else changed" oracles.
type snap struct {
	regs      []region
	count     int
	free      int
	liveOff   []int
	liveUD    []any
	liveUDErr []bool
}

func takeSnap(m BlockMetadata, live []ghost, tlsf bool) snap {
	s := snap{regs: regionsOf(m, tlsf), count: m.AllocationCount(), free: m.SumFreeSize()}
	for i := range live {
		off, _ := m.AllocationOffset(live[i].h)
		s.liveOff = append(s.liveOff, off)
		ud, err := m.AllocationUserData(live[i].h)
		s.liveUD = append(s.liveUD, ud)
		s.liveUDErr = append(s.liveUDErr, err != nil)
	}
	return s
}

// sameSnap: all observables equal (region lists compared position by position).
func sameSnap(a, b snap) bool {
	if len(a.regs) != len(b.regs) || len(a.liveOff) != len(b.liveOff) {
		return false
	}
	ok := verifAnd(a.count == b.count, a.free == b.free)
	for i := range a.regs {
		ok = verifAnd(ok, a.regs[i].off == b.regs[i].off)
		ok = verifAnd(ok, a.regs[i].size == b.regs[i].size)
		ok = verifAnd(ok, a.regs[i].free == b.regs[i].free)
		ok = verifAnd(ok, a.regs[i].ud == b.regs[i].ud)
	}
	for i := range a.liveOff {
		ok = verifAnd(ok, a.liveOff[i] == b.liveOff[i])
		ok = verifAnd(ok, a.liveUD[i] == b.liveUD[i])
		ok = verifAnd(ok, a.liveUDErr[i] == b.liveUDErr[i])
	}
	return ok
}

// oracleC17: handles resolve to their own allocation; setting user data affects only that allocation;
// enumeration visits every live allocation exactly once and nothing else.
func oracleC17(label string, m BlockMetadata, live []ghost, tlsf bool) {
	ok := true
	panicked := verifCatch(func() {
		for i := range live {
			ud, err := m.AllocationUserData(live[i].h)
			ok = verifAnd(ok, err == nil)
			ok = verifAnd(ok, ud == any(live[i].ud))
			off, err2 := m.AllocationOffset(live[i].h)
			ok = verifAnd(ok, err2 == nil)
			ok = verifAnd(ok, off == live[i].off)
		}
	})
	verifAssert(label+"/lookup-by-handle", verifAnd(ok, !panicked))

	// set the user data of each allocation in turn, observe all, restore
	if len(live) > 0 {
		ok = true
		panicked = verifCatch(func() {
			for t := range live {
				fresh := new(int)
				ok = verifAnd(ok, m.SetAllocationUserData(live[t].h, fresh) == nil)
				for i := range live {
					ud, err := m.AllocationUserData(live[i].h)
					ok = verifAnd(ok, err == nil)
					if i == t {
						ok = verifAnd(ok, ud == any(fresh))
					} else {
						ok = verifAnd(ok, ud == any(live[i].ud))
					}
				}
				ok = verifAnd(ok, m.SetAllocationUserData(live[t].h, live[t].ud) == nil)
			}
		})
		verifAssert(label+"/set-user-data-affects-only-target", verifAnd(ok, !panicked))
	}

	// enumeration through the region visitor
	ok = true
	panicked = verifCatch(func() {
		regs := regionsOf(m, tlsf)
		taken := 0
		for _, r := range regs {
			if r.free {
				continue
			}
			taken++
			matches := 0
			for i := range live {
				if p, isP := r.ud.(*int); isP && p == live[i].ud {
					matches++
					ok = verifAnd(ok, r.off == live[i].off)
				}
			}
			ok = verifAnd(ok, matches == 1)
			// the reported handle resolves to the same allocation
			off, err := m.AllocationOffset(r.h)
			ok = verifAnd(ok, err == nil)
			ok = verifAnd(ok, off == r.off)
			ud, err2 := m.AllocationUserData(r.h)
			ok = verifAnd(ok, err2 == nil)
			ok = verifAnd(ok, ud == r.ud)
		}
		ok = verifAnd(ok, taken == len(live))
	})
	verifAssert(label+"/region-enumeration-exact", verifAnd(ok, !panicked))

	if tlsf {
		ok = true
		panicked = verifCatch(func() {
			seen := make([]int, len(live))
			n := 0
			h, err := m.AllocationListBegin()
			ok = verifAnd(ok, err == nil)
			for h != NoAllocation && n <= len(live) {
				n++
				for i := range live {
					if live[i].h == h {
						seen[i]++
					}
				}
				h, err = m.FindNextAllocation(h)
				ok = verifAnd(ok, err == nil)
			}
			ok = verifAnd(ok, n == len(live))
			for i := range seen {
				ok = verifAnd(ok, seen[i] == 1)
			}
		})
		verifAssert(label+"/list-iteration-exact", verifAnd(ok, !panicked))
	}
}
