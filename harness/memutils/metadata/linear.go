//go:build verif_harness

package metadata

// Linear algorithm harnesses: bounded histories from Init with every numeric argument symbolic.
//
// cfg = variant (block-size / step-count selector). The property selects the oracle.

const (
	pC01 = 1
	pC03 = 3
	pC06 = 6
	pC13 = 13
	pC16 = 16
	pC17 = 17
	pC18 = 18
)

// ---- reference model for C16 (sets of live entries; no lazy deletion, no compaction) -----------

type refEnt struct {
	off, size int
	ud        *int
}

type refLinear struct {
	B     int
	lower []refEnt
	upper []refEnt
	ring  []refEnt
}

func refMaxEnd(l []refEnt) int {
	e := 0
	for _, x := range l {
		e = verifIte(x.off+x.size > e, x.off+x.size, e)
	}
	return e
}

func refMinOff(l []refEnt, dflt int) int {
	o := dflt
	for _, x := range l {
		o = verifIte(x.off < o, x.off, o)
	}
	return o
}

func refAlignUp(v, a int) int   { return (v + a - 1) & ^(a - 1) }
func refAlignDown(v, a int) int { return v & ^(a - 1) }

// request returns (granted, offset, which list: 0 lower, 1 upper, 2 ring).
func (r *refLinear) request(size, align int, upper bool) (bool, int, int) {
	if upper {
		if len(r.ring) > 0 {
			return false, 0, 1
		}
		top := refMinOff(r.upper, r.B)
		if size > top { // concrete structure, symbolic numbers: this `if` forks
			return false, 0, 1
		}
		off := refAlignDown(top-size, align)
		if off < refMaxEnd(r.lower) {
			return false, 0, 1
		}
		return true, off, 1
	}
	if len(r.ring) == 0 {
		off := refAlignUp(refMaxEnd(r.lower), align)
		if off+size <= refMinOff(r.upper, r.B) {
			return true, off, 0
		}
		if len(r.upper) > 0 || len(r.lower) == 0 {
			return false, 0, 0
		}
		if size <= refMinOff(r.lower, r.B) { // wrap-around to offset 0
			return true, 0, 2
		}
		return false, 0, 2
	}
	off := refAlignUp(refMaxEnd(r.ring), align)
	if off+size <= refMinOff(r.lower, r.B) {
		return true, off, 2
	}
	return false, 0, 2
}

func (r *refLinear) commit(list int, e refEnt) {
	switch list {
	case 0:
		r.lower = append(r.lower, e)
	case 1:
		r.upper = append(r.upper, e)
	default:
		r.ring = append(r.ring, e)
	}
}

func refRemove(l []refEnt, ud *int) []refEnt {
	nl := make([]refEnt, 0, len(l))
	for _, x := range l {
		if x.ud != ud {
			nl = append(nl, x)
		}
	}
	return nl
}

func (r *refLinear) free(ud *int) {
	r.lower = refRemove(r.lower, ud)
	r.upper = refRemove(r.upper, ud)
	r.ring = refRemove(r.ring, ud)
	if len(r.lower) == 0 && len(r.ring) > 0 {
		r.lower, r.ring = r.ring, nil
	}
}

// ---- driver ------------------------------------------------------------------------------------

type linState struct {
	m    *LinearBlockMetadata
	B    int
	live []ghost
	ref  *refLinear
	prop int
	step int
}

func (r *refLinear) liveBytes() int {
	n := 0
	for _, l := range [][]refEnt{r.lower, r.upper, r.ring} {
		for _, e := range l {
			n += e.size
		}
	}
	return n
}

func (s *linState) check(tag string) {
	switch s.prop {
	case pC16:
		// the space accounted as free is what the reference model says is not occupied by live allocations
		verifAssert("C16/linear/free-bytes-as-reference", s.m.SumFreeSize() == s.B-s.ref.liveBytes())
		verifAssert("C16/linear/live-count-as-reference", s.m.AllocationCount() == len(s.ref.lower)+len(s.ref.upper)+len(s.ref.ring))
	case pC01:
		oracleC01("C01/linear/"+tag, s.m, s.live, s.B, false)
	case pC03:
		oracleC03("C03/linear/"+tag, s.m, s.live, s.B, false)
	case pC17:
		oracleC17("C17/linear/"+tag, s.m, s.live, false)
	}
}

// alloc performs one request+commit with symbolic size and alignment.
func (s *linState) alloc(upper bool, symAlign bool) {
	verifOp()
	size := verifNondetInt("size")
	verifAssume(size >= 1)
	verifAssume(size <= 2*s.B)
	align := 1
	if symAlign {
		align = pow2("alignLog", 5)
	}
	var before snap
	if s.prop == pC13 || s.prop == pC06 {
		before = takeSnap(s.m, s.live, false)
	}
	var ok bool
	var req AllocationRequest
	var err error
	if s.prop == pC13 {
		p := verifCatch(func() {
			ok, req, err = s.m.CreateAllocationRequest(size, uint(align), upper, 1, 0, int(^uint(0)>>1))
		})
		verifAssert("C13/linear/request-does-not-panic", !p)
		if p {
			return
		}
	} else {
		ok, req, err = s.m.CreateAllocationRequest(size, uint(align), upper, 1, 0, int(^uint(0)>>1))
	}
	granted := err == nil && ok
	ud := new(int)
	if granted {
		if s.prop == pC13 {
			p := verifCatch(func() { err = s.m.Alloc(req, 1, ud) })
			verifAssert("C13/linear/commit-does-not-panic", !p)
			if p {
				return
			}
		} else {
			err = s.m.Alloc(req, 1, ud)
		}
		granted = err == nil
	}
	if s.prop == pC16 {
		rok, roff, rlist := s.ref.request(size, align, upper)
		verifAssert("C16/linear/same-success-as-reference", granted == rok)
		if granted && rok {
			off, _ := s.m.AllocationOffset(req.BlockAllocationHandle)
			verifAssert("C16/linear/same-offset-as-reference", off == roff)
			s.ref.commit(rlist, refEnt{roff, size, ud})
		} else if rok {
			s.ref.commit(rlist, refEnt{roff, size, ud})
		}
	}
	if !granted {
		if s.prop == pC13 {
			verifAssert("C13/linear/refusal-changes-nothing", sameSnap(before, takeSnap(s.m, s.live, false)))
		}
		return
	}
	off, _ := s.m.AllocationOffset(req.BlockAllocationHandle)
	if s.prop == pC06 { // an allocation must not alter any other allocation
		after := takeSnap(s.m, s.live, false)
		okk := true
		for i := range s.live {
			okk = verifAnd(okk, before.liveOff[i] == after.liveOff[i])
			okk = verifAnd(okk, before.liveUD[i] == after.liveUD[i])
			okk = verifAnd(okk, !after.liveUDErr[i])
		}
		verifAssert("C06/linear/alloc-leaves-others-untouched", okk)
	}
	s.live = append(s.live, ghost{req.BlockAllocationHandle, off, size, align, upper, ud})
}

func (s *linState) free(i int) {
	verifOp()
	g := s.live[i]
	before := s.m.AllocationCount()
	var bs snap
	if s.prop == pC06 {
		bs = takeSnap(s.m, s.live, false)
	}
	var err error
	if s.prop == pC13 {
		p := verifCatch(func() { err = s.m.Free(g.h) })
		verifAssert("C13/linear/free-does-not-panic", !p)
		if p {
			return
		}
	} else {
		err = s.m.Free(g.h)
	}
	if s.prop == pC06 || s.prop == pC16 {
		verifAssert("C"+itoa2(s.prop)+"/linear/free-of-live-allocation-succeeds", err == nil)
	}
	if err != nil {
		return
	}
	if s.prop == pC16 {
		s.ref.free(g.ud)
	}
	s.live = removeAt(s.live, i)
	if s.prop == pC06 {
		verifAssert("C06/linear/count-decreases-by-one", s.m.AllocationCount() == before-1)
		after := takeSnap(s.m, s.live, false)
		ok := true
		k := 0
		for j := range bs.liveOff {
			if j == i {
				continue
			}
			ok = verifAnd(ok, bs.liveOff[j] == after.liveOff[k])
			ok = verifAnd(ok, bs.liveUD[j] == after.liveUD[k])
			ok = verifAnd(ok, !after.liveUDErr[k])
			k++
		}
		// sizes of the survivors, through the enumeration
		for _, g2 := range s.live {
			r, found := regionByUD(after.regs, g2.ud)
			ok = verifAnd(ok, found)
			if found {
				ok = verifAnd(ok, r.size == g2.size)
				ok = verifAnd(ok, r.off == g2.off)
			}
		}
		verifAssert("C06/linear/free-leaves-others-untouched", ok)
		_, still := regionByUD(after.regs, g.ud)
		verifAssert("C06/linear/freed-allocation-is-gone", !still)
	}
}

func itoa2(n int) string {
	switch n {
	case pC01:
		return "01"
	case pC03:
		return "03"
	case pC06:
		return "06"
	case pC13:
		return "13"
	case pC16:
		return "16"
	case pC17:
		return "17"
	case pC18:
		return "18"
	}
	return "??"
}

// recipeAlloc performs one recipe allocation that is assumed to be granted (paths on which it is refused are
// covered by the plain histories); oracles are not evaluated during recipes.
func (s *linState) recipeAlloc(upper bool, symAlign bool, wantType AllocationRequestType) {
	size := verifNondetInt("rsize")
	verifAssume(size >= 1)
	verifAssume(size <= s.B)
	align := 1
	if symAlign {
		align = pow2("ralignLog", 4)
	}
	ok, req, err := s.m.CreateAllocationRequest(size, uint(align), upper, 1, 0, int(^uint(0)>>1))
	verifAssume(err == nil)
	verifAssume(ok)
	verifAssume(req.Type == wantType)
	ud := new(int)
	verifAssume(s.m.Alloc(req, 1, ud) == nil)
	off, _ := s.m.AllocationOffset(req.BlockAllocationHandle)
	s.live = append(s.live, ghost{req.BlockAllocationHandle, off, size, align, upper, ud})
	if s.prop == pC16 {
		rok, roff, rlist := s.ref.request(size, align, upper)
		verifAssert("C16/linear/recipe-same-success-as-reference", rok)
		if rok {
			verifAssert("C16/linear/recipe-same-offset-as-reference", off == roff)
			s.ref.commit(rlist, refEnt{roff, size, ud})
		}
	}
}

// recipeAllocSized: recipe allocation of a concrete size and alignment 1.
func (s *linState) recipeAllocSized(upper bool, size int, wantType AllocationRequestType) {
	ok, req, err := s.m.CreateAllocationRequest(size, 1, upper, 1, 0, int(^uint(0)>>1))
	verifAssume(err == nil)
	verifAssume(ok)
	verifAssume(req.Type == wantType)
	ud := new(int)
	verifAssume(s.m.Alloc(req, 1, ud) == nil)
	off, _ := s.m.AllocationOffset(req.BlockAllocationHandle)
	s.live = append(s.live, ghost{req.BlockAllocationHandle, off, size, 1, upper, ud})
	if s.prop == pC16 {
		rok, roff, rlist := s.ref.request(size, 1, upper)
		verifAssert("C16/linear/recipe-same-success-as-reference", rok)
		if rok {
			verifAssert("C16/linear/recipe-same-offset-as-reference", off == roff)
			s.ref.commit(rlist, refEnt{roff, size, ud})
		}
	}
}

func (s *linState) recipeFree(i int) {
	g := s.live[i]
	err := s.m.Free(g.h)
	verifAssert("C"+itoa2(s.prop)+"/linear/recipe-free-succeeds", err == nil)
	verifAssume(err == nil)
	if s.prop == pC16 {
		s.ref.free(g.ud)
	}
	s.live = removeAt(s.live, i)
}

// linearHistory: a canonical recipe (cfg) followed by K arbitrary operations, oracle after every operation.
//
//	cfg 0: empty block, B=100          cfg 1: empty block, B=128
//	cfg 2: ring buffer L3(3, j, m): 3 lower allocations, free the first j in {1,2}, m in {2,3,4} wrap-around allocations
//	cfg 3: double stack L2(2, 2): 2 lower + 2 upper allocations
//	cfg 4: stack L1(4) with the two middle entries freed (null items in the middle of the first vector)
//	cfg 7: small ring buffer L3(2,1,2)     cfg 8: ring buffer L3(2,1,3) with concrete sizes except one wrapped entry
//	cfg 5/6: compaction family (36 entries in the first vector, 21 freed in the middle; 5 = with an upper stack)
func linearHistory(prop int, cfg int) {
	B := 100
	K := 3
	if verifTier() == 1 {
		K = 4
	}
	if cfg == 1 {
		B = 128
	}
	m := NewLinearBlockMetadata(1, nullGran{})
	m.Init(B)
	s := &linState{m: m, B: B, prop: prop, ref: &refLinear{B: B}}
	switch cfg {
	case 2:
		for i := 0; i < 3; i++ {
			s.recipeAlloc(false, i == 2, AllocationRequestEndOf1st)
		}
		j := 1 + verifChoice("ringFreed", 2)
		for i := 0; i < j; i++ {
			s.recipeFree(0)
		}
		mm := 2 + verifChoice("ringWrapped", 3)
		for i := 0; i < mm; i++ {
			s.recipeAlloc(false, i == 1, AllocationRequestEndOf2nd)
		}
		K = 2
		if verifTier() == 1 {
			K = 3
		}
	case 7:
		// small ring buffer L3(2,1,2): two lower allocations, the first one freed, two wrapped-around allocations
		s.recipeAlloc(false, false, AllocationRequestEndOf1st)
		s.recipeAlloc(false, false, AllocationRequestEndOf1st)
		s.recipeFree(0)
		s.recipeAlloc(false, false, AllocationRequestEndOf2nd)
		s.recipeAlloc(false, true, AllocationRequestEndOf2nd)
		K = 2
		if verifTier() == 1 {
			K = 3
		}
	case 8:
		// ring buffer L3(2,1,3), sizes concrete except the middle wrapped entry (a hole inside the second vector
		// followed by the swap of the vectors is reachable in two operations)
		s.recipeAllocSized(false, 30, AllocationRequestEndOf1st)
		s.recipeAllocSized(false, 67, AllocationRequestEndOf1st)
		s.recipeFree(0)
		s.recipeAllocSized(false, 5, AllocationRequestEndOf2nd)
		s.recipeAlloc(false, false, AllocationRequestEndOf2nd)
		s.recipeAllocSized(false, 4, AllocationRequestEndOf2nd)
		K = 2
		if verifTier() == 1 {
			K = 3
		}
	case 3:
		s.recipeAlloc(false, false, AllocationRequestEndOf1st)
		s.recipeAlloc(false, true, AllocationRequestEndOf1st)
		s.recipeAlloc(true, true, AllocationRequestUpperAddress)
		s.recipeAlloc(true, true, AllocationRequestUpperAddress)
		K = 2
		if verifTier() == 1 {
			K = 3
		}
	case 4:
		for i := 0; i < 4; i++ {
			s.recipeAlloc(false, i == 3, AllocationRequestEndOf1st)
		}
		s.recipeFree(1)
		s.recipeFree(1)
		K = 2
		if verifTier() == 1 {
			K = 3
		}
	case 5, 6:
		// compaction family: more than 32 entries in the first vector, most of them freed in the middle.
		// cfg 5: double stack (one upper allocation), cfg 6: plain stack. Sizes of the last three entries are symbolic.
		if cfg == 5 {
			s.recipeAllocSized(true, 4, AllocationRequestUpperAddress)
		}
		n := 36
		for i := 0; i < n-3; i++ {
			s.recipeAllocSized(false, 1, AllocationRequestEndOf1st)
		}
		for i := 0; i < 3; i++ {
			s.recipeAlloc(false, false, AllocationRequestEndOf1st)
		}
		base := 0
		if cfg == 5 {
			base = 1
		}
		// free 21 entries from the middle (keeps the first entry and the last 14 alive)
		for i := 0; i < 21; i++ {
			s.recipeFree(base + 1)
		}
		K = 1
		if verifTier() == 1 {
			K = 2
		}
	}
	// The region-enumerating oracles (C01, C03) fork on every possible gap between allocations; instead of
	// evaluating them after every step of one long history they are evaluated at the end of histories of every
	// length 0..K (each intermediate state of a history is the final state of a shorter one).
	endOnly := prop == pC01 || prop == pC03
	if endOnly {
		lo := 1
		if cfg >= 2 {
			lo = 0
		}
		K = lo + verifChoice("historyLength", K-lo+1)
	} else if cfg >= 2 {
		s.check("after-recipe")
	}
	for step := 0; step < K; step++ {
		s.step = step
		nops := 2
		if len(s.live) > 0 {
			nops = 3
		}
		op := verifChoice("op", nops)
		switch op {
		case 0:
			s.alloc(false, step >= 1)
		case 1:
			s.alloc(true, true)
		case 2:
			s.free(verifChoice("victim", len(s.live)))
		}
		if !endOnly {
			s.check("after-step")
		}
	}
	if endOnly {
		s.check("after-step")
	}
	if prop == pC06 || prop == pC18 {
		s.freeAll()
	}
	verifReach("end")
}

// freeAll frees every remaining allocation, in ascending or descending order of age.
func (s *linState) freeAll() {
	desc := verifChoice("freeAllDescending", 2)
	for len(s.live) > 0 {
		i := 0
		if desc == 1 {
			i = len(s.live) - 1
		}
		h := s.live[i].h
		err := s.m.Free(h)
		verifAssert("C"+itoa2(s.prop)+"/linear/remaining-allocations-stay-freeable", err == nil)
		if err != nil {
			return
		}
		s.live = removeAt(s.live, i)
	}
	if s.prop == pC18 {
		s.asGoodAsNew()
	} else {
		verifAssert("C06/linear/block-empty-after-freeing-everything", s.m.IsEmpty())
	}
}

// asGoodAsNew: an emptied block answers like a fresh one (C18, second part).
func (s *linState) asGoodAsNew() {
	fresh := NewLinearBlockMetadata(1, nullGran{})
	fresh.Init(s.B)
	eq := true
	eq = verifAnd(eq, s.m.IsEmpty())
	eq = verifAnd(eq, s.m.SumFreeSize() == fresh.SumFreeSize())
	eq = verifAnd(eq, s.m.AllocationCount() == 0)
	verifAssert("C18/linear/emptied-block-observables-equal-fresh", eq)
	// structural equivalence modulo which backing vector is "first"
	st := true
	st = verifAnd(st, len(*s.m.accessSuballocationsFirst()) == 0)
	st = verifAnd(st, len(*s.m.accessSuballocationsSecond()) == 0)
	st = verifAnd(st, s.m.secondVectorMode == SecondVectorModeEmpty)
	st = verifAnd(st, s.m.firstNullItemsBeginCount == 0)
	st = verifAnd(st, s.m.firstNullItemsMiddleCount == 0)
	st = verifAnd(st, s.m.secondNullItemsCount == 0)
	st = verifAnd(st, s.m.sumFreeSize == s.B)
	verifAssert("C18/linear/emptied-block-state-equals-fresh", st)
	// lock-step confirmation: two further symbolic requests answered identically
	for k := 0; k < 2; k++ {
		size := verifNondetInt("size2")
		verifAssume(size >= 1)
		verifAssume(size <= 2*s.B)
		align := pow2("alignLog2", 5)
		upper := verifChoice("upper2", 2) == 1
		var ok1, ok2 bool
		var r1, r2 AllocationRequest
		var e1, e2 error
		p1 := verifCatch(func() { ok1, r1, e1 = s.m.CreateAllocationRequest(size, uint(align), upper, 1, 0, int(^uint(0)>>1)) })
		p2 := verifCatch(func() { ok2, r2, e2 = fresh.CreateAllocationRequest(size, uint(align), upper, 1, 0, int(^uint(0)>>1)) })
		same := p1 == p2
		if !p1 && !p2 {
			same = verifAnd(same, ok1 == ok2)
			same = verifAnd(same, (e1 == nil) == (e2 == nil))
			same = verifAnd(same, r1.BlockAllocationHandle == r2.BlockAllocationHandle)
			same = verifAnd(same, r1.Type == r2.Type)
		}
		verifAssert("C18/linear/emptied-block-answers-like-fresh", same)
		if p1 || p2 || !ok1 || !ok2 || e1 != nil || e2 != nil {
			break
		}
		if s.m.Alloc(r1, 1, new(int)) != nil || fresh.Alloc(r2, 1, new(int)) != nil {
			break
		}
	}
}

func Verif_C01_Linear(cfg int) { linearHistory(pC01, cfg) }
func Verif_C03_Linear(cfg int) { linearHistory(pC03, cfg) }
func Verif_C06_Linear(cfg int) { linearHistory(pC06, cfg) }
func Verif_C13_Linear(cfg int) { linearHistory(pC13, cfg) }
func Verif_C16_Linear(cfg int) { linearHistory(pC16, cfg) }
func Verif_C17_Linear(cfg int) { linearHistory(pC17, cfg) }
func Verif_C18_Linear(cfg int) { linearHistory(pC18, cfg) }
