//go:build verif_harness

package metadata

// TLSF harnesses: bounded histories from Init (every numeric argument symbolic), recipe states T(n,F,pi)
// followed by the operation under test, and full-width lemmas for the size -> free-list mapping.

const (
	pC05 = 5
	maxI = int(^uint(0) >> 1)
)

type tlsfState struct {
	m    *TLSFBlockMetadata
	B    int
	live []ghost
	prop int
}

func (s *tlsfState) check(tag string) {
	switch s.prop {
	case pC01:
		oracleC01("C01/tlsf/"+tag, s.m, s.live, s.B, true)
	case pC03:
		oracleC03("C03/tlsf/"+tag, s.m, s.live, s.B, true)
	case pC17:
		oracleC17("C17/tlsf/"+tag, s.m, s.live, true)
	case pC18:
		s.noAdjacentFree("C18/tlsf/" + tag)
	}
}

// noAdjacentFree: C18 first part - free space is fully coalesced.
func (s *tlsfState) noAdjacentFree(label string) {
	regs := regionsOf(s.m, true)
	ok := true
	for i := 0; i+1 < len(regs); i++ {
		if regs[i].free && regs[i+1].free {
			// only legal if the second one is the zero-sized end marker; then the first must not be free either
			ok = false
		}
	}
	verifAssert(label+"/no-two-adjacent-free-ranges", ok)
}

func symStrategy(name string) AllocationStrategy {
	st := verifNondetUint32(name)
	ok := verifOr(verifOr(st == 0, st == 1), verifOr(st == 2, st == 4))
	verifAssume(ok)
	return AllocationStrategy(st)
}

// alloc: one request+commit with symbolic size, alignment and strategy.
func (s *tlsfState) alloc(symAlign bool, recipe bool) bool {
	verifOp()
	size := verifNondetInt("size")
	verifAssume(size >= 1)
	if recipe {
		verifAssume(size <= s.B)
	} else {
		verifAssume(size <= 2*s.B)
	}
	align := 1
	if symAlign {
		align = pow2("alignLog", 6)
	}
	strategy := AllocationStrategy(0)
	if !recipe {
		strategy = symStrategy("strategy")
	}
	var before snap
	if s.prop == pC13 || s.prop == pC06 {
		before = takeSnap(s.m, s.live, true)
	}
	var ok bool
	var req AllocationRequest
	var err error
	if s.prop == pC13 {
		p := verifCatch(func() {
			ok, req, err = s.m.CreateAllocationRequest(size, uint(align), false, 1, strategy, maxI)
		})
		verifAssert("C13/tlsf/request-does-not-panic", !p)
		if p {
			return false
		}
	} else {
		ok, req, err = s.m.CreateAllocationRequest(size, uint(align), false, 1, strategy, maxI)
	}
	granted := err == nil && ok
	if recipe {
		verifAssume(granted)
	}
	ud := new(int)
	if granted {
		if s.prop == pC13 {
			p := verifCatch(func() { err = s.m.Alloc(req, 1, ud) })
			verifAssert("C13/tlsf/commit-does-not-panic", !p)
			if p {
				return false
			}
		} else {
			err = s.m.Alloc(req, 1, ud)
		}
		granted = err == nil
	}
	if !granted {
		if s.prop == pC13 {
			// a request may reorder a free list (documented: the found block is moved to the list head); nothing observable changes
			verifAssert("C13/tlsf/refusal-changes-nothing", sameSnap(before, takeSnap(s.m, s.live, true)))
		}
		return false
	}
	off, _ := s.m.AllocationOffset(req.BlockAllocationHandle)
	if s.prop == pC06 {
		after := takeSnap(s.m, s.live, true)
		okk := true
		for i := range s.live {
			okk = verifAnd(okk, before.liveOff[i] == after.liveOff[i])
			okk = verifAnd(okk, before.liveUD[i] == after.liveUD[i])
			okk = verifAnd(okk, !after.liveUDErr[i])
		}
		verifAssert("C06/tlsf/alloc-leaves-others-untouched", okk)
	}
	s.live = append(s.live, ghost{req.BlockAllocationHandle, off, size, align, false, ud})
	return true
}

// allocRange: recipe allocation with a symbolic size in [lo,hi], alignment 1, default strategy; assumed granted.
func (s *tlsfState) allocRange(name string, lo, hi int) {
	size := lo
	if hi > lo {
		size = verifNondetInt(name)
		verifAssume(size >= lo)
		verifAssume(size <= hi)
	}
	ok, req, err := s.m.CreateAllocationRequest(size, 1, false, 1, 0, maxI)
	verifAssume(err == nil)
	verifAssume(ok)
	ud := new(int)
	verifAssume(s.m.Alloc(req, 1, ud) == nil)
	off, _ := s.m.AllocationOffset(req.BlockAllocationHandle)
	s.live = append(s.live, ghost{req.BlockAllocationHandle, off, size, 1, false, ud})
}

// allocRange2: recipe allocation of an already symbolic size.
func (s *tlsfState) allocRange2(size int) {
	ok, req, err := s.m.CreateAllocationRequest(size, 1, false, 1, 0, maxI)
	verifAssume(err == nil)
	verifAssume(ok)
	ud := new(int)
	verifAssume(s.m.Alloc(req, 1, ud) == nil)
	off, _ := s.m.AllocationOffset(req.BlockAllocationHandle)
	s.live = append(s.live, ghost{req.BlockAllocationHandle, off, size, 1, false, ud})
}

func (s *tlsfState) free(i int, recipe bool) {
	verifOp()
	g := s.live[i]
	before := s.m.AllocationCount()
	var bs snap
	if s.prop == pC06 && !recipe {
		bs = takeSnap(s.m, s.live, true)
	}
	var err error
	if s.prop == pC13 {
		p := verifCatch(func() { err = s.m.Free(g.h) })
		verifAssert("C13/tlsf/free-does-not-panic", !p)
		if p {
			return
		}
	} else {
		err = s.m.Free(g.h)
	}
	if s.prop == pC06 {
		verifAssert("C06/tlsf/free-of-live-allocation-succeeds", err == nil)
	}
	if err != nil {
		return
	}
	s.live = removeAt(s.live, i)
	if s.prop == pC06 && !recipe {
		verifAssert("C06/tlsf/count-decreases-by-one", s.m.AllocationCount() == before-1)
		after := takeSnap(s.m, s.live, true)
		ok := true
		k := 0
		for j := range bs.liveOff {
			if j == i {
				continue
			}
			ok = verifAnd(ok, bs.liveOff[j] == after.liveOff[k])
			ok = verifAnd(ok, bs.liveUD[j] == after.liveUD[k])
			ok = verifAnd(ok, !after.liveUDErr[k])
			k++
		}
		for _, g2 := range s.live {
			r, found := regionByUD(after.regs, g2.ud)
			ok = verifAnd(ok, found)
			if found {
				ok = verifAnd(ok, r.size >= g2.size)
				ok = verifAnd(ok, r.off == g2.off)
			}
		}
		verifAssert("C06/tlsf/free-leaves-others-untouched", ok)
		_, still := regionByUD(after.regs, g.ud)
		verifAssert("C06/tlsf/freed-allocation-is-gone", !still)
	}
}

func tlsfBlockSize(cfg int) int {
	switch cfg % 10 {
	case 1:
		return 320
	case 2:
		return 1000
	case 3:
		return 4096
	}
	return 256
}

// tlsfHistory: cfg%10 selects the block size; cfg/10 selects the scenario:
//
//	0: K arbitrary operations from a fresh block
//	1: recipe T(3,F,pi): 3 allocations, then frees of a chosen subset in a chosen order, then K2 arbitrary operations
//	2: three holes (sizes 1..64, all filed in one free list) separated by live allocations, freed in any order
//	3: one 100-byte hole at the unaligned offset 10 between two live allocations, then 2 operations with symbolic alignment
func tlsfHistory(prop int, cfg int) {
	B := tlsfBlockSize(cfg)
	m := NewTLSFBlockMetadata(1, nullGran{})
	m.Init(B)
	s := &tlsfState{m: m, B: B, prop: prop}
	K := 3
	if verifTier() == 1 {
		K = 4
	}
	if cfg/10 == 1 {
		n := 3
		if verifTier() == 1 {
			n = 4
		}
		for i := 0; i < n; i++ {
			s.alloc(i == 1, true)
		}
		nf := 1 + verifChoice("recipeFrees", 2)
		for i := 0; i < nf; i++ {
			s.free(verifChoice("recipeVictim", len(s.live)), true)
		}
		K = 2
	}
	if cfg/10 == 2 {
		// three holes filed in one free list: hole, separator, hole, separator, hole, separator; the holes are freed
		// in any order (free-list order = reverse order of freeing)
		var holes []int
		for i := 0; i < 3; i++ {
			s.allocRange("holeSize", 1, 64)
			holes = append(holes, len(s.live)-1)
			s.allocRange("sepSize", 16, 16)
		}
		order := verifChoice("holeFreeOrder", 6)
		perm := [][]int{{0, 1, 2}, {0, 2, 1}, {1, 0, 2}, {1, 2, 0}, {2, 0, 1}, {2, 1, 0}}[order]
		hs := []BlockAllocationHandle{s.live[holes[0]].h, s.live[holes[1]].h, s.live[holes[2]].h}
		for _, k := range perm {
			for i := range s.live {
				if s.live[i].h == hs[k] {
					s.free(i, true)
					break
				}
			}
		}
		K = 1
		if verifTier() == 1 {
			K = 2
		}
	}
	if cfg/10 == 3 {
		// one hole at an unaligned offset between two live allocations: [0,10) live, [10,110) hole, 16-byte separator;
		// then an aligned request into the hole and a request into what is left of it
		s.allocRange("leadSize", 10, 10)
		s.allocRange("holeSize", 100, 100)
		s.allocRange("sepSize", 16, 16)
		s.free(1, true)
		K = 2
	}
	endOnly := prop == pC01 || prop == pC03
	if endOnly {
		lo := 1
		if cfg/10 >= 1 {
			lo = 0
		}
		K = lo + verifChoice("historyLength", K-lo+1)
	} else if cfg/10 >= 1 {
		s.check("after-recipe")
	}
	for step := 0; step < K; step++ {
		nops := 1
		if len(s.live) > 0 {
			nops = 2
		}
		switch verifChoice("op", nops) {
		case 0:
			s.alloc(step >= 1 || cfg/10 == 3, false)
		case 1:
			s.free(verifChoice("victim", len(s.live)), false)
		}
		if !endOnly {
			s.check("after-step")
		}
	}
	if endOnly {
		s.check("after-step")
	}
	if prop == pC06 || prop == pC18 {
		s.freeAll()
	}
	verifReach("end")
}

func (s *tlsfState) freeAll() {
	useClear := 0
	if s.prop == pC18 {
		useClear = verifChoice("useClear", 2)
	}
	if useClear == 1 {
		s.m.Clear()
		s.live = nil
	} else {
		desc := verifChoice("freeAllDescending", 2)
		for len(s.live) > 0 {
			i := 0
			if desc == 1 {
				i = len(s.live) - 1
			}
			err := s.m.Free(s.live[i].h)
			verifAssert("C"+itoa2(s.prop)+"/tlsf/remaining-allocations-stay-freeable", err == nil)
			if err != nil {
				return
			}
			s.live = removeAt(s.live, i)
		}
	}
	if s.prop == pC18 {
		s.asGoodAsNew()
	} else {
		verifAssert("C06/tlsf/block-empty-after-freeing-everything", s.m.IsEmpty())
	}
}

func (s *tlsfState) asGoodAsNew() {
	fresh := NewTLSFBlockMetadata(1, nullGran{})
	fresh.Init(s.B)
	m := s.m
	eq := true
	eq = verifAnd(eq, m.IsEmpty())
	eq = verifAnd(eq, m.SumFreeSize() == fresh.SumFreeSize())
	eq = verifAnd(eq, m.AllocationCount() == 0)
	eq = verifAnd(eq, m.FreeRegionsCount() == fresh.FreeRegionsCount())
	verifAssert("C18/tlsf/emptied-block-observables-equal-fresh", eq)
	// structural equivalence modulo identity of node objects
	st := true
	st = verifAnd(st, m.allocCount == 0)
	st = verifAnd(st, m.blocksFreeCount == 0)
	st = verifAnd(st, m.blocksFreeSize == 0)
	st = verifAnd(st, m.isFreeBitmap == 0)
	st = verifAnd(st, m.memoryClasses == fresh.memoryClasses)
	st = verifAnd(st, len(m.freeList) == len(fresh.freeList))
	for i := range m.freeList {
		st = verifAnd(st, m.freeList[i] == nil)
	}
	for i := range m.innerIsFreeBitmap {
		st = verifAnd(st, m.innerIsFreeBitmap[i] == 0)
	}
	st = verifAnd(st, m.nullBlock.offset == 0)
	st = verifAnd(st, m.nullBlock.size == s.B)
	st = verifAnd(st, m.nullBlock.prevPhysical == nil)
	st = verifAnd(st, m.nullBlock.nextPhysical == nil)
	st = verifAnd(st, m.nullBlock.IsFree())
	st = verifAnd(st, m.tailBlock == m.nullBlock)
	verifAssert("C18/tlsf/emptied-block-state-equals-fresh", st)
	for k := 0; k < 2; k++ {
		size := verifNondetInt("size2")
		verifAssume(size >= 1)
		verifAssume(size <= 2*s.B)
		align := pow2("alignLog2", 6)
		strategy := symStrategy("strategy2")
		ok1, r1, e1 := m.CreateAllocationRequest(size, uint(align), false, 1, strategy, maxI)
		ok2, r2, e2 := fresh.CreateAllocationRequest(size, uint(align), false, 1, strategy, maxI)
		same := ok1 == ok2
		same = verifAnd(same, (e1 == nil) == (e2 == nil))
		same = verifAnd(same, r1.AlgorithmData == r2.AlgorithmData)
		same = verifAnd(same, r1.Size == r2.Size)
		verifAssert("C18/tlsf/emptied-block-answers-like-fresh", same)
		if !ok1 || !ok2 || e1 != nil || e2 != nil {
			break
		}
		if m.Alloc(r1, 1, new(int)) != nil || fresh.Alloc(r2, 1, new(int)) != nil {
			break
		}
	}
}

func Verif_C01_TLSF(cfg int) { tlsfHistory(pC01, cfg) }
func Verif_C03_TLSF(cfg int) { tlsfHistory(pC03, cfg) }
func Verif_C06_TLSF(cfg int) { tlsfHistory(pC06, cfg) }
func Verif_C13_TLSF(cfg int) { tlsfHistory(pC13, cfg) }
func Verif_C17_TLSF(cfg int) { tlsfHistory(pC17, cfg) }
func Verif_C18_TLSF(cfg int) { tlsfHistory(pC18, cfg) }

// ---------------------------------------------------------------------------------------------
// C05: differential check of the search against an exhaustive scan of the region list.

// Verif_C05_TLSF_Search: recipe state T(n,F,pi), then one request with symbolic size, alignment, strategy and
// offset bound; the oracle enumerates the regions (granularity rules: none in force with the null handler).
func Verif_C05_TLSF_Search(cfg int) {
	B := tlsfBlockSize(cfg)
	m := NewTLSFBlockMetadata(1, nullGran{})
	m.Init(B)
	s := &tlsfState{m: m, B: B, prop: pC05}
	if cfg/10 == 2 || cfg/10 == 3 {
		// bucket-boundary recipe: two holes of any size up to 300 bytes separated by live allocations, a small
		// trailing free block; covers every combination of free-list buckets for hole and request sizes
		// (cfg/10 == 3: lighter variant for the quick tier, holes of 129..256 bytes, i.e. the two upper small buckets)
		lo, hi, tailMax := 1, 300, 200
		if cfg/10 == 3 {
			lo, hi, tailMax = 129, 256, 128
		}
		s.allocRange("hole1", lo, hi)
		s.allocRange("sep1", 16, 16)
		s.allocRange("hole2", lo, hi)
		s.allocRange("sep2", 16, 16)
		tail := verifNondetInt("tailFree")
		verifAssume(tail >= 0)
		verifAssume(tail <= tailMax)
		rest := s.m.SumFreeSize() - tail
		verifAssume(rest >= 1)
		s.allocRange2(rest)
		s.free(2, true)
		s.free(0, true)
	} else if cfg/10 == 5 {
		// padded-out recipe: a live lead allocation of symbolic size (so the first hole starts at an arbitrary,
		// usually misaligned offset), hole of 100 bytes, separator, hole of 200 bytes, separator, 8 trailing free bytes.
		// An aligned request can be too big for the first hole once padding is added and still fit the second one.
		s.allocRange("lead", 1, 64)
		s.allocRange("holeSize", 100, 100)
		s.allocRange("sepSize", 16, 16)
		s.allocRange("holeSize", 200, 200)
		s.allocRange("sepSize", 16, 16)
		s.allocRange2(s.m.SumFreeSize() - 8)
		s.free(3, true)
		s.free(1, true)
	} else if cfg/10 == 4 {
		// three holes of concrete sizes 60, 50, 40 (one free list) separated by live 16-byte allocations, freed in any
		// order, 8 trailing free bytes; then two arbitrary operations (a free next to a hole merges it into
		// another list, an allocation can consume the merged hole) before the request under test
		var holes []BlockAllocationHandle
		for _, h := range []int{60, 50, 40} {
			s.allocRange("holeSize", h, h)
			holes = append(holes, s.live[len(s.live)-1].h)
			s.allocRange("sepSize", 16, 16)
		}
		s.allocRange("fill", s.m.SumFreeSize()-8, s.m.SumFreeSize()-8) // 8 bytes stay free at the end
		perm := [][]int{{0, 1, 2}, {0, 2, 1}, {1, 0, 2}, {1, 2, 0}, {2, 0, 1}, {2, 1, 0}}[verifChoice("holeFreeOrder", 6)]
		for _, k := range perm {
			for i := range s.live {
				if s.live[i].h == holes[k] {
					s.free(i, true)
					break
				}
			}
		}
		for step := 0; step < 2; step++ {
			switch verifChoice("op", 2) {
			case 0:
				s.alloc(false, true)
			case 1:
				s.free(verifChoice("victim", len(s.live)), true)
			}
		}
	} else {
		n := 3
		if verifTier() == 1 {
			n = 4
		}
		if cfg/10 == 1 {
			n = 2
		}
		for i := 0; i < n; i++ {
			s.alloc(i == 1, true)
		}
		nf := verifChoice("recipeFrees", 3)
		for i := 0; i < nf && len(s.live) > 0; i++ {
			s.free(verifChoice("recipeVictim", len(s.live)), true)
		}
	}
	size := verifNondetInt("reqSize")
	verifAssume(size >= 1)
	verifAssume(size <= 2*B)
	if cfg/10 == 3 {
		verifAssume(size >= 129)
		verifAssume(size <= 256)
	}
	align := 1
	if cfg/10 < 2 || cfg/10 == 5 {
		align = pow2("reqAlignLog", 6)
	}
	strategy := symStrategy("reqStrategy")
	bounded := (cfg/10 < 2 || cfg/10 == 5) && verifChoice("bounded", 2) == 1
	maxOffset := maxI
	if bounded {
		maxOffset = verifNondetInt("maxOffset")
		verifAssume(maxOffset >= 0)
		verifAssume(maxOffset <= B)
	}
	may := m.MayHaveFreeBlock(1, size)
	ok, req, err := m.CreateAllocationRequest(size, uint(align), false, 1, strategy, maxOffset)
	verifAssert("C05/request-returns-no-error", err == nil)
	if err != nil {
		return
	}
	// exhaustive scan
	regs := regionsOf(m, true)
	anyFeasible := false      // some free range can hold the request at the alignment (ignoring the bound)
	anyFeasibleBelow := false // ... at an offset below the bound
	minFeasible := maxI
	for i := len(regs) - 1; i >= 0; i-- {
		r := regs[i]
		if !r.free {
			continue
		}
		a := refAlignUp(r.off, align)
		fits := a+size <= r.off+r.size
		anyFeasible = verifOr(anyFeasible, fits)
		below := verifAnd(fits, a < maxOffset)
		anyFeasibleBelow = verifOr(anyFeasibleBelow, below)
		minFeasible = verifIte(below, a, minFeasible) // regions are visited from high to low offsets
	}
	if !ok {
		verifAssert("C05/refused-only-if-no-fitting-range", !anyFeasibleBelow)
	} else {
		off := int(req.AlgorithmData)
		verifAssert("C05/granted-offset-below-bound", off < maxOffset)
		if strategy&AllocationStrategyMinOffset != 0 {
			verifAssert("C05/min-offset-grants-lowest-feasible-offset", off == minFeasible)
		}
		// the grant itself must be one of the feasible placements
		verifAssert("C05/granted-placement-is-feasible", anyFeasible)
	}
	verifAssert("C05/may-have-free-block-has-no-false-negative", verifImplies(anyFeasible, may))
	verifReach("end")
}

// Verif_C05_TLSF_Lemmas: full-width lemmas about the size -> list-index mapping (no shape bound on the block state;
// the block size is one of a list of concrete values because Init sizes the free-list slice from it).
func Verif_C05_TLSF_Lemmas(cfg int) {
	sizes := []int{1, 63, 64, 65, 255, 256, 257, 320, 1000, 4096, 65536, 1 << 20, (1 << 32) + 5, 1 << 40, (1 << 62) + 12345}
	B := sizes[cfg%len(sizes)]
	m := NewTLSFBlockMetadata(1, nullGran{})
	m.Init(B)
	s1 := verifNondetInt("s1")
	s2 := verifNondetInt("s2")
	verifAssume(s1 >= 1)
	verifAssume(s1 <= B)
	verifAssume(s2 >= 1)
	verifAssume(s2 <= B)
	c1 := m.sizeToMemoryClass(s1)
	c2 := m.sizeToMemoryClass(s2)
	i1 := m.getListIndex(c1, m.sizeToSecondIndex(s1, c1))
	i2 := m.getListIndex(c2, m.sizeToSecondIndex(s2, c2))
	// L1: monotone
	verifAssert("C05/lemma/list-index-monotone", verifImplies(s1 <= s2, i1 <= i2))
	verifAssert("C05/lemma/memory-class-monotone", verifImplies(s1 <= s2, c1 <= c2))
	// L2: in range for this block size
	verifAssert("C05/lemma/list-index-in-range", verifAnd(i2 >= 0, i2 < len(m.freeList)))
	verifAssert("C05/lemma/memory-class-in-range", int(c2) < m.memoryClasses)
	verifAssert("C05/lemma/memory-class-below-array-size", int(c2) < maxMemoryClasses)
	verifAssert("C05/lemma/second-index-below-32", m.sizeToSecondIndex(s2, c2) < 32)
	// L3: every size filed under the list of sizeForNextList(s1) or a later list is >= s1
	nx := m.sizeForNextList(s1)
	if nx <= B {
		cn := m.sizeToMemoryClass(nx)
		in := m.getListIndex(cn, m.sizeToSecondIndex(nx, cn))
		verifAssert("C05/lemma/next-list-holds-only-fitting-sizes", verifImplies(i2 >= in, s2 >= s1))
		verifAssert("C05/lemma/next-list-is-later", in >= i1)
	}
	verifReach("end")
}
