//go:build verif_harness

package metadata

// verifEntries lets the native replay test find a harness entry by name.
var verifEntries = map[string]func(int){
	"Verif_C01_Linear": Verif_C01_Linear,
	"Verif_C03_Linear": Verif_C03_Linear,
	"Verif_C06_Linear": Verif_C06_Linear,
	"Verif_C13_Linear": Verif_C13_Linear,
	"Verif_C16_Linear": Verif_C16_Linear,
	"Verif_C17_Linear": Verif_C17_Linear,
	"Verif_C18_Linear": Verif_C18_Linear,

	"Verif_C01_TLSF":        Verif_C01_TLSF,
	"Verif_C03_TLSF":        Verif_C03_TLSF,
	"Verif_C06_TLSF":        Verif_C06_TLSF,
	"Verif_C13_TLSF":        Verif_C13_TLSF,
	"Verif_C17_TLSF":        Verif_C17_TLSF,
	"Verif_C18_TLSF":        Verif_C18_TLSF,
	"Verif_C05_TLSF_Search": Verif_C05_TLSF_Search,
	"Verif_C05_TLSF_Lemmas": Verif_C05_TLSF_Lemmas,
}
