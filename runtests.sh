#!/bin/bash
# Runs the repository's pinned baseline (37 tests in memutils) with the harness guard off.
export PATH=/opt/veriftools/go1.26.8/bin:$PATH GOFLAGS=-mod=mod GOPROXY=off GOSUMDB=off GOTOOLCHAIN=local
cd /repo/memutils && go test -vet=off -count=1 -timeout 25m ./... 
