#!/bin/bash
# seedrun.sh <seed-id> ["<check ids>"]
# Re-runs the registered quick check(s) against a stored seeded change: a scratch worktree of /repo's HEAD is created
# outside /repo and /verif, seeded/<id>/patch.diff is applied there, ./check <id> quick runs with VERIF_REPO pointing
# at it, the result is written to seeded/<id>/meta.json (checks_quick) and the worktree is removed again.
# Expected: rc=1 with at least one VIOLATION line for every seed. Nothing is ever applied to /repo itself.
set -u
id=$1
here=$(cd "$(dirname "$0")" && pwd)
prop=$(python3 -c "import json;print(json.load(open('$here/seeded/$id/meta.json'))['property'])")
checks=${2:-$prop}
wt=/var/tmp/seedwt_$id
git -C /repo worktree remove --force $wt 2>/dev/null
git -C /repo worktree add -q --detach $wt HEAD || exit 2
(cd $wt && git apply $here/seeded/$id/patch.diff) || { echo "patch of $id does not apply"; git -C /repo worktree remove --force $wt; exit 2; }
res=""
for c in $checks; do
  ev=$(mktemp -d /var/tmp/seedev.XXXX)
  out=$(cd $here && VERIF_REPO=$wt VERIF_EVIDENCE_DIR=$ev timeout 2400 ./check $c quick 2>&1)
  rc=$?
  v=$(echo "$out" | grep -c "^VIOLATION")
  res="$res $c:rc=$rc,violations=$v"
  echo "$out" | grep -A1 "^VIOLATION" | head -4 | cut -c1-300
  rm -rf $ev
done
git -C /repo worktree remove --force $wt
echo "RESULT $id:$res"
python3 - "$here/seeded/$id/meta.json" "$res" <<'PY'
import json,sys
p,res=sys.argv[1:]
m=json.load(open(p)); m['checks_quick']=res.strip(); m['checks_quick_run_by']='seedrun.sh (scratch worktree of /repo HEAD + patch, VERIF_REPO)'
json.dump(m,open(p,'w'),indent=1)
PY
