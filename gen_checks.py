#!/usr/bin/env python3
"""Generates checks.json (the registry read by the engine). Edit here, run, commit both."""
import json

MD = {"module": "memutils", "pkg": "metadata"}
def job(entry, q, t, deep=(), **kw):
    d = dict(MD); d.update(kw); d.update({"entry": entry, "cfgs_quick": q, "cfgs_thorough": t, "cfgs_deep": list(deep)}); return d

BLOCK_ASSUME = ["granularity handler without rules (granularity 1) unless stated", "default build (DebugMargin 0)",
                "user data is never nil (the linear algorithm uses nil as its free marker)", "alignment is a power of two",
                "handles passed to free/lookup belong to live allocations"]
LIN_Q = "linear: all histories of 3 operations (lower/upper request+commit with symbolic size in [1,2B] and alignment 2^0..2^5, free of any live allocation) from an empty 100-byte block"
LIN_RECIPES = "recipe states: small ring buffer L3(2,1,2); ring L3(2,1,3) with one symbolic size, ring buffer L3(3,j,m) (j in {1,2} freed at the front, m in {2,3,4} wrapped around), double stack L2(2,2), stack L1(4) with both middle entries freed, compaction family (36 entries in the first vector, 21 freed in the middle, with and without an upper stack), each followed by arbitrary operations"
TLSF_Q = "TLSF: recipe state with three holes of symbolic sizes 1..64 in one free list (freed in every order) + 1 operation; all histories of 3 operations (request+commit with symbolic size in [1,2B], alignment 2^0..2^6, strategy in {0,1,2,4}; free of any live allocation) on blocks of 256 and 320 bytes"
OUT = "histories longer than stated from the stated recipe states; block sizes other than those listed; granularity rules (covered by C09); debug_mem_utils builds"

checks = {}
checks["C01"] = {
 "level": "model_checking",
 "jobs": [job("Verif_C01_Linear", [0, 2, 3, 4, 5, 6, 7, 8], [0, 1, 2, 3, 4, 5, 6, 7, 8], deep=[0, 3, 4, 7, 8]), job("Verif_C01_TLSF", [0, 1, 20, 30], [0, 1, 2, 20, 21, 30])],
 "bounds_quick": LIN_Q + "; " + LIN_RECIPES + " (quick: without the ring-buffer recipe; 2 operations after a recipe, 1 after compaction); " + TLSF_Q + "; TLSF one-hole recipe (100-byte hole at the unaligned offset 10 between live allocations) + 2 operations with symbolic alignment",
 "bounds_thorough": "as quick with 4 operations per history (3 after a recipe, 2 after compaction), block sizes 100 and 128 (linear) / 256, 320, 1000 (TLSF), ring-buffer recipe, TLSF recipe T(n<=4,F,pi) + 2 operations",
 "assumptions": BLOCK_ASSUME, "outside": OUT}
checks["C03"] = {
 "level": "model_checking",
 "jobs": [job("Verif_C03_Linear", [0, 4, 5, 7, 8], [0, 1, 3, 4, 5, 6, 7, 8], deep=[0, 4, 7, 8]), job("Verif_C03_TLSF", [0, 1, 20], [0, 1, 2, 20, 21, 30])],
 "bounds_quick": LIN_Q + " and the compaction family with an upper stack + 1 operation; " + TLSF_Q.replace("256 and 320", "256") + ". After every operation: tiling of the enumerated regions, allocation count, free bytes, emptiness flag, Statistics, DetailedStatistics (min/max, unused ranges) against the harness' own live set, and Validate()==nil (Validate is executed symbolically as code under test).",
 "bounds_thorough": "as quick with 4 operations, all linear recipes, TLSF blocks 256/320 and recipe T(n<=4,F,pi)",
 "assumptions": BLOCK_ASSUME, "outside": OUT}
checks["C05"] = {
 "level": "model_checking",
 "jobs": [job("Verif_C05_TLSF_Lemmas", list(range(15)), list(range(15))), job("Verif_C05_TLSF_Search", [10, 11, 32, 40, 52], [10, 11, 32, 40, 41, 52, 53])],
 "bounds_quick": "lemmas at full 64-bit width for 15 block sizes (1 .. 2^62+12345): list index and memory class monotone in the size, in range of the arrays sized by Init, next-list rounding only reaches fitting sizes; search: recipe T(2,F,pi) on 256/320-byte blocks (2 allocations, 0-2 frees in any order), then one request with symbolic size, alignment 2^0..2^6, strategy, optional symbolic offset bound, compared with an exhaustive scan of the region list; bucket-boundary recipe (light): 1000-byte block, two holes of symbolic size 129..256 separated by live allocations, symbolic trailing free space 0..128, request of symbolic size 129..256, every strategy; merge recipe: 256-byte block with three holes of 60, 50 and 40 bytes in one free list (freed in every order), 8 free bytes at the end, then two arbitrary operations (free of any live allocation, or allocation of a symbolic size) and the request under test; padded-out recipe: 1000-byte block, live lead allocation of symbolic size 1..64 (the first hole starts at an arbitrary offset), holes of 100 and 200 bytes separated by live 16-byte allocations, 8 trailing free bytes, then a request of symbolic size, alignment 2^0..2^6, every strategy, optional symbolic offset bound (an aligned request can be too big for the first hole once padding is added and still fit the second)",
 "bounds_thorough": "padded-out recipe also on the 4096-byte block; search additionally from T(n<=4,F,pi) and from the bucket-boundary recipe on a 1000-byte block (two holes of symbolic size 1..300, symbolic trailing free space 0..200, request size symbolic, every strategy): covers every combination of free-list buckets of hole and request sizes",
 "assumptions": BLOCK_ASSUME + ["granularity rules in force: none (null handler); the granularity-aware variant is part of C09's harness"], "outside": OUT}
checks["C06"] = {
 "level": "model_checking",
 "jobs": [job("Verif_C06_Linear", [0, 3, 5, 7, 8], [0, 1, 2, 3, 4, 5, 6, 7, 8], deep=[0, 4, 7, 8]), job("Verif_C06_TLSF", [0, 1, 20], [0, 1, 20, 21])],
 "bounds_quick": LIN_Q + ", double-stack recipe and compaction family; " + TLSF_Q + "; after the history every remaining allocation is freed in ascending or descending order of age",
 "bounds_thorough": "all linear recipes, 4 operations, TLSF recipes",
 "assumptions": BLOCK_ASSUME, "outside": OUT}
checks["C13"] = {
 "level": "model_checking",
 "jobs": [job("Verif_C13_Linear", [0, 3, 4, 7, 8], [0, 1, 2, 3, 4, 5, 6, 7, 8], deep=[0, 3, 4, 7, 8]), job("Verif_C13_TLSF", [0, 1, 20], [0, 1, 2, 20])],
 "bounds_quick": LIN_Q + " + recipes L2(2,2), L1(4) with 2 operations; " + TLSF_Q + "; every call runs inside a panic catcher; a refusal must leave all observables unchanged. Block level only (the allocator-level clauses are checked by the vam harnesses).",
 "bounds_thorough": "all recipes, 4 operations",
 "assumptions": BLOCK_ASSUME, "outside": OUT + "; stale handles; alignment 0"}
checks["C16"] = {
 "level": "model_checking",
 "jobs": [job("Verif_C16_Linear", [0, 2, 3, 4, 7, 8], [], deep=[0, 1, 2, 3, 4, 5, 6, 7, 8])],
 "bounds_quick": LIN_Q + "; " + LIN_RECIPES + " (2 operations after a recipe); success flag and granted offset of every request, and acceptance of every free, compared in lock-step with an independent reference model (sets of live entries; no lazy deletion, no compaction) written from the property statement",
 "bounds_thorough": "4 operations (3 after a recipe), block sizes 100 and 128, compaction family",
 "assumptions": BLOCK_ASSUME + ["granularity 1: no conflict relation in force (granularity bumps are checked against the page rule by C09)"], "outside": OUT}
checks["C17"] = {
 "level": "model_checking",
 "jobs": [job("Verif_C17_Linear", [0, 3, 4, 7, 8], [0, 1, 2, 3, 4, 5, 6, 7, 8], deep=[0, 4, 7, 8]), job("Verif_C17_TLSF", [0, 1, 20], [0, 1, 20, 21])],
 "bounds_quick": LIN_Q + " + recipes L2(2,2), L1(4); " + TLSF_Q + "; after every operation: user data and offset by handle for every live allocation, SetAllocationUserData on each allocation in turn, region visitor and (TLSF) list iteration visit every live allocation exactly once",
 "bounds_thorough": "all recipes, 4 operations",
 "assumptions": BLOCK_ASSUME, "outside": OUT}
checks["C18"] = {
 "level": "model_checking",
 "jobs": [job("Verif_C18_Linear", [0, 7, 8], [0, 1, 2, 3, 4, 7, 8]), job("Verif_C18_TLSF", [0], [0, 1, 20])],
 "bounds_quick": LIN_Q + "; " + TLSF_Q.replace("256 and 320", "256") + "; TLSF: no two adjacent free ranges after every operation; then everything is freed (either order) or the block is cleared, and the block is compared with a freshly initialised one: observables, internal state modulo documented symmetries, and 2 further symbolic requests answered in lock-step",
 "bounds_thorough": "4 operations, linear recipes, TLSF 320 bytes and recipe",
 "assumptions": BLOCK_ASSUME, "outside": OUT}

DF = {"module": "memutils", "pkg": "defrag"}
def djob(entry, q, t, deep=()):
    d = dict(DF); d.update({"entry": entry, "cfgs_quick": q, "cfgs_thorough": t, "cfgs_deep": list(deep)}); return d
DEFRAG_ASSUME = ["BlockList and move handler written in the harness from the documentation of defrag.BlockList / DefragmentationMove (mirrors vam's use)", "TLSF blocks of 256 bytes, granularity 1", "default build"]
DEFRAG_B = "real MetadataDefragContext over an in-harness BlockList of real TLSF blocks (256 bytes each): layouts 1 block x 3 allocations, 2 blocks x (2,1), 3 blocks x (1,1,1), symbolic sizes, one allocation freed (any); both algorithms; up to 2 passes; per pass one symbolic-free decision copy/ignore/destroy applied to all moves"
checks["C07"] = {
 "level": "model_checking",
 "jobs": [djob("Verif_Defrag_Run", [0, 1, 2, 3, 4, 5], list(range(12)))],
 "bounds_quick": DEFRAG_B + ". memutils layer only (the vam layer is checked by the vam harnesses).",
 "bounds_thorough": "layouts 1x4, 2x(3,2), 3x(2,2,2) with 0-3 frees and one symbolic alignment, 3 passes, an independent decision per move, with and without symbolic per-pass limits",
 "assumptions": DEFRAG_ASSUME, "outside": "more blocks/allocations/passes than stated; granularity handlers; the vam consumer"}
checks["C15"] = {
 "level": "model_checking",
 "jobs": [djob("Verif_Defrag_Run", [6, 7, 8, 9, 10, 11], list(range(12))), djob("Verif_Defrag_Reuse", [0, 1], [0, 1])],
 "bounds_quick": DEFRAG_B + "; per-pass byte limit symbolic in [1,1024] and allocation limit symbolic in [1,8]; reuse: a context that completed a run with an ignored move on another block list vs. a fresh context on an identical 2-block state (symbolic sizes)",
 "bounds_thorough": "as C07 thorough",
 "assumptions": DEFRAG_ASSUME + ["termination is not decided: every explored run either ends with an empty pass within the pass bound or is cut at the bound (reach label pass-bound-reached); forward progress per move is what is asserted"],
 "outside": "termination for larger shapes; limits of 0 (vam replaces 0 by MaxInt before calling memutils)"}

VM = {"module": "vam", "pkg": "."}
def vjob(entry, q, t, deep=()):
    d = dict(VM); d.update({"entry": entry, "cfgs_quick": q, "cfgs_thorough": t, "cfgs_deep": list(deep)}); return d
VAM_ASSUME = ["simulated Vulkan device written from the Vulkan contract of the driver calls vam uses (harness/vam/sim.go): live memory objects, mapping state, bound resources, valid-usage rules named by C08; no real driver behaviour is claimed",
              "device layout: heap 0 = 2048 bytes (type 0 DEVICE_LOCAL, preferred block 256), heap 1 = 8192 bytes (type 1 HOST_VISIBLE|HOST_COHERENT, type 2 HOST_VISIBLE|HOST_CACHED, preferred block 1024); variants: granularity 1/1024, nonCoherentAtomSize 1/64, heap limits, maxMemoryAllocationCount, an excluded AMD device-coherent type",
              "API version 1.0 without extensions (dedicated-allocation, bind2, memory-budget, priority extensions off)", "allocator internally synchronised (mutexes modelled as a lock-state machine; self-deadlock and unlock-of-unlocked are reported as panics)",
              "default build"]
VAM_OUT = "histories longer than stated; other device layouts; API 1.1+/extension code paths (memory budget extension, dedicated-allocation requirements, BindMemory2); concurrency (see C12); real drivers"
VAM_HIST = "all histories of 3 API calls (AllocateMemory in 4-6 flag/type variants incl. dedicated, persistently mapped, never-allocate, min-offset strategy; Free of any live allocation) with symbolic size in [1,300] and alignment 2^0..2^7"
VDEF = "defragmentation through the public API: custom TLSF pool with explicit 256-byte blocks (max 3), four allocations of symbolic sizes spilling into a second block (two optionally persistently mapped), one or two holes freed, full run of up to 3 passes (quick: every move copied; thorough: copy/ignore/destroy per pass, 5 allocations), both algorithms"

checks["C02"] = {"level": "model_checking",
 "jobs": [vjob("Verif_C02_Hist", [0], [0, 1, 2, 32]), vjob("Verif_C02_VDefrag", [0, 32, 192], [0, 32, 128, 192, 224])],
 "bounds_quick": VAM_HIST + "; " + VDEF + ". After every call: memory object live on the device and of a permitted type, range inside the object, requested and pool-minimum alignment, pairwise disjoint within a memory object, dedicated allocations alone at offset 0.",
 "bounds_thorough": "4 calls; device variants granularity 1024 / atom 64; custom pools (4 variants incl. linear) and multi-allocations of 2",
 "assumptions": VAM_ASSUME, "outside": VAM_OUT}
checks["C04"] = {"level": "model_checking",
 "jobs": [vjob("Verif_C04_Hist", [0, 4], [0, 4, 32]), vjob("Verif_C04_VDefrag", [0], [0, 32]), vjob("Verif_C10_Faults", [96, 128], [96, 128, 0, 64])],
 "bounds_quick": VAM_HIST + "; " + VDEF + ". After every call CalculateStatistics (per type, per heap, total: block count/bytes, allocation count/bytes, min/max) and HeapBudget (statistics, usage) are compared with the simulated device's live objects and the harness' live set. Fault sequences: the multi-allocation operations of the C10 fault-injection harness are run for C04 as well (statistics after a part-way failure); the other operations see C10.",
 "bounds_thorough": "4 calls, pools, multi-allocations",
 "assumptions": VAM_ASSUME + ["memory-budget extension off (usage == block bytes)"], "outside": VAM_OUT + "; JSON rendering (BuildStatsString)"}
checks["C07"]["jobs"].append(vjob("Verif_C07_VDefrag", [0, 32], [0, 32, 128]))
checks["C07"]["bounds_quick"] += " vam layer: " + VDEF
checks["C07"]["assumptions"] = checks["C07"]["assumptions"] + VAM_ASSUME
checks["C08"] = {"level": "model_checking",
 "jobs": [vjob("Verif_C08_Kernels", [0], [0]), vjob("Verif_C08_Maps", [2, 34, 98, 226, 256], [2, 34, 98, 226, 0, 32, 256, 288], deep=[2, 34]), vjob("Verif_C08_VDefrag", [0], [0, 32])],
 "bounds_quick": "kernel at full width: minimum alignment of a memory type for all flag words and atom sizes 2^0..2^12; scripts on two allocations sharing a block (coherent and non-coherent type, atom 64): 0 or 4 map/unmap pairs, 0 or 4 allocate/free pairs (drives the mapping hysteresis over its 7-event thresholds), then one of 5 final operation groups (map/unmap, nested maps of two allocations, map + free of the neighbour, free + map of the neighbour, persistently mapped allocation); flush/invalidate with symbolic offset and size (any positive size, WholeSize) on either allocation; defragmentation run; every driver call is checked by the simulated device against the valid-usage rules of the property, flush ranges additionally against the other live allocations",
 "bounds_thorough": "0/3/4 pairs, all device variants",
 "assumptions": VAM_ASSUME + ["caller obligations: flush/invalidate only while the allocation is mapped, balanced Map/Unmap, offset >= 0"], "outside": VAM_OUT + "; bind offsets chosen by the caller; image binds"}
checks["C09"] = {"level": "model_checking",
 "jobs": [vjob("Verif_C09_Pages", [0, 1, 2, 3, 8, 9, 13], [0, 1, 2, 3, 4, 5, 8, 9, 13])],
 "bounds_quick": "vam's real granularity handler under the real TLSF and linear metadata (wired as deviceMemoryBlock.Init does): granularity 16 on a 256-byte block (3 operations TLSF / 2 linear; linear additionally the double-stack script: lower request, upper request, one arbitrary operation) and granularity 1024 on a 2048-byte block (2 operations); sizes symbolic up to block+page, alignment 2^0..2*granularity, kinds one representative per conflict class (unknown, buffer, optimal image), lower and upper requests for linear; after every call no two live allocations of conflicting kinds share a page (conflict relation written from the property text); page-boundary recipe on a 1024-byte block with granularity 512: three buffers tile the block (symbolic sizes), the middle one is freed, then one operation",
 "bounds_thorough": "one more operation, all five kinds, granularity 4096",
 "assumptions": ["default build"], "outside": "more operations; other granularities; defragmentation (the vam defragmentation harness keeps kinds unknown)"}
checks["C10"] = {"level": "fault_enumeration",
 "jobs": [vjob("Verif_C10_Faults", [0, 32, 64, 96, 128, 160, 192, 224, 4, 132], [0, 32, 64, 96, 128, 160, 192, 224, 2, 34, 98, 4, 132, 36], deep=[0, 224])],
 "bounds_quick": "a fault-free history of 1 call, then one operation under fault injection: every fallible driver call (AllocateMemory, MapMemory, CreateBuffer, BindBufferMemory) asks a symbolic Boolean whether to fail (at most 1 fault; 2 for the multi-step operations), so every position first/k-th/last is covered by the solver. The single block allocation and the dedicated multi-allocation are also run on the device variant with heap size limits {512,1024} (there a retry may be refused for lack of room; budget equalities are still required). Operations: single block allocation, persistently mapped allocation, dedicated allocation, multi-allocation of 3, mapped dedicated multi-allocation of 3, pool creation with 2 minimum blocks, CreateBuffer, Map after 0..3 map/unmap pairs (covers the call on which the mapping hysteresis flips). On failure: error not panic, caller Allocations unallocated and reusable (a fault-free allocation into them is accepted), every live device object owned by a block list or a live dedicated allocation, empty spare blocks within max(minBlockCount,1), existing allocations untouched, C02 and C04 equalities, no invalid driver call",
 "bounds_thorough": "history of 2 calls, 2 faults everywhere, atom-64 variant",
 "assumptions": VAM_ASSUME + ["fault kinds: VK_ERROR_OUT_OF_DEVICE_MEMORY for allocate/bind, VK_ERROR_MEMORY_MAP_FAILED for map, VK_ERROR_OUT_OF_HOST_MEMORY for create"], "outside": VAM_OUT + "; faults in GetMemoryRequirements2 / image paths"}
checks["C11"] = {"level": "model_checking",
 "jobs": [vjob("Verif_C11_Hist", [4, 8, 36], [4, 8, 12, 36]), vjob("Verif_C11_OverBudget", [0], [0, 4]), vjob("Verif_C11_Race", [0], [0]), vjob("Verif_C11_FaultCount", [8, 12], [8, 12, 4])],
 "bounds_quick": VAM_HIST + " on devices with heap size limits {512,1024}, maxMemoryAllocationCount 2, and custom pools (min/max block counts); after every call: device bytes per heap <= limit, live memory objects <= count limit, pool block counts within [min,max], no AllocateMemory driver call during a never-allocate request, a dedicated request owns an object of exactly the requested size; two goroutines racing for the last bytes of a heap limit (all schedules with at most 2 pre-emptions); limits after driver failures: 4 steps of dedicated allocation (every vkAllocateMemory may fail, at most 2 faults) or free on the variants with maxMemoryAllocationCount 2 and heap limits",
 "bounds_thorough": "4 calls, multi-allocations",
 "assumptions": VAM_ASSUME, "outside": VAM_OUT + "; the race clause is covered only in the reduced form of C12's schedule exploration: two goroutines, two dedicated requests of symbolic size racing for a 512-byte heap limit, at most two pre-emptions"}
checks["C13"]["jobs"] += [vjob("Verif_C13_Hist", [0, 96], [0, 32, 96]), vjob("Verif_C09_Pages", [13], [1, 13])]
checks["C13"]["bounds_quick"] += " Allocator level: " + VAM_HIST + " with every call inside a panic catcher; refusals compared with a snapshot of device objects, live allocations and counters; CreatePool with every memory type index in [-2,40]. Block level with granularity rules in force: the page harness of C09 (linear algorithm, double-stack script: lower request, upper request, one arbitrary operation; granularity 16, real granularity handler) with every request, commit and free inside a panic catcher."
checks["C13"]["assumptions"] = checks["C13"]["assumptions"] + VAM_ASSUME
checks["C14"] = {"level": "model_checking",
 "jobs": [vjob("Verif_C14_Maps", [2, 34, 256], [2, 34, 0, 32, 256, 288], deep=[2, 34]), vjob("Verif_C14_VDefrag", [0, 128], [0, 32, 128, 160])],
 "bounds_quick": "the C08 scripts (hysteresis-crossing map/unmap and allocate/free sequences on allocations sharing a block; a sweep of all 7 phases of the 7-event hysteresis window with 3 or 4 map/unmap pairs followed by 3 or 4 allocate/free pairs, fixed sizes) and the defragmentation run: every Map must return base(Memory()) + FindOffset() of the allocation's current location with the object mapped in the driver; after every event the memory behind persistent mappings and outstanding user maps is still mapped; persistently mapped allocations stay mapped after relocation",
 "bounds_thorough": "0/3/4 pairs, device variants",
 "assumptions": VAM_ASSUME + ["stores through the pointer are modelled as address ranges (pointer value + size), not simulated"], "outside": VAM_OUT}
checks["C15"]["jobs"] += [vjob("Verif_C15_VDefrag", [0], [0, 32]), vjob("Verif_C15_VReuse", [0, 32], [0, 32])]
checks["C15"]["bounds_quick"] += " vam layer: a DefragmentationContext reused for a second run vs. a fresh one on an identical world (two worlds built from the same symbolic sizes); final statistics of a complete run equal the moves carried out (" + VDEF + ")"
checks["C19"] = {"level": "model_checking",
 "jobs": [vjob("Verif_C19_Select", [0, 12], [0, 1, 4, 8, 12, 13, 2]), vjob("Verif_C19_Fallback", [0], [], deep=[0, 2])],
 "bounds_quick": "memory type table of 3 types with symbolic 8-bit property flags (device-local, host-visible, coherent, cached, lazily-allocated, protected, AMD coherent/uncached), symbolic caller mask, requirement mask, usage mode 0..4, host-access flags, required and preferred flags, optional symbolic resource-usage word; discrete and integrated device, with and without the AMD extension; every clause of the statement is asserted against a specification written from the property text",
 "bounds_thorough": "tables of 4, 5 and 6 types",
 "assumptions": ["property flags restricted to the 8 defined low bits", "single heap", "fallback clause: request with two eligible host-visible types sharing a heap, every AllocateMemory call may fail (up to 8 faults): a failing request must have attempted both types"], "outside": "more than 6 memory types; fallback among more than two eligible types"}
checks["C20"] = {"level": "model_checking",
 "jobs": [vjob("Verif_C20_Teardown", [0, 1, 16], [0, 16, 1, 4])],
 "bounds_quick": "histories of 3 calls (block and dedicated allocations, pool creation in 2 variants, frees), then everything is freed in ascending or descending order - or one chosen allocation is deliberately leaked - then pools and allocator are destroyed; device variants: an excluded (AMD device-coherent) memory type; buffer-image granularity 1024 (larger than the blocks of heap 0, so that block allocations of unknown kind outgrow a freshly created block and fall back to dedicated memory); assertions: retained blocks per list <= max(minBlockCount,1), teardown succeeds and leaves no device memory and no mapping, a leak is reported as an error and its memory is not released, pool identities distinct, no invalid driver call",
 "bounds_thorough": "all allocation and pool variants, more device variants",
 "assumptions": VAM_ASSUME, "outside": VAM_OUT}

checks["C12"] = {"level": "exploration",
 "jobs": [vjob("Verif_C12_Pairs", list(range(13)), list(range(13)))],
 "bounds_quick": "REDUCED FORM of the property: two goroutines, each running one API call (or a map+unmap pair), for 13 pairs named in the statement: allocate || free of distinct allocations of one block list; map/unmap || allocate in the same block; map/unmap || map/unmap of two allocations sharing a block; dedicated allocate || CalculateStatistics; pool create || pool destroy; CalculateStatistics || free; free || free (same block); free || free of the only allocations of two different blocks of one pool (the totals must equal those of a sequential execution: exactly one spare empty block remains); map/unmap || map/unmap of the same allocation (a further map/unmap must then succeed, no double map or stray unmap reaches the driver); dedicated allocate || free of another dedicated allocation; allocate || allocate in one pool whose block cannot take both (exactly two blocks afterwards, as in every sequential execution); pool create || pool create (distinct ids); dedicated allocate || dedicated allocate with room for exactly one more memory object under maxMemoryAllocationCount (exactly one request is granted, the device limit is never exceeded). Every schedule with at most 2 pre-emptions is explored (scheduling points: mutex, atomic and sync.Pool operations, goroutine start/end; the scheduler's choices are decisions of the symbolic executor, one request size is symbolic); a vector-clock happens-before monitor over heap slots reports data races, a blocked-everywhere state reports deadlock; after the join the C02/C04 oracles and the error results are asserted. A reported race is confirmed natively by running the same harness 300 times under `go test -race`.",
 "bounds_thorough": "same pairs (the thorough tier validates more schedules natively)",
 "assumptions": VAM_ASSUME + ["sequentially consistent atomics; happens-before edges from mutexes (RLock treated like Lock), atomics, sync.Pool, goroutine start and join", "the simulated driver is internally locked (as a Vulkan driver is thread-safe for distinct objects); its lock adds happens-before edges that can hide a race between accesses separated by driver calls on both sides", "race monitor granularity: heap slots reached through loads and stores; element accesses inside append/copy and map operations are not monitored"],
 "outside": "more than two goroutines; longer operation sequences per goroutine; schedules with more than 2 pre-emptions; pre-emption between two plain memory accesses (only relevant for racy code, which the monitor reports anyway); BuildStatsString; weak-memory effects; this is bounded schedule exploration, not a proof of race freedom"}

DEEP_NOTE = {'C16': '4 operations (3 after a recipe), block sizes 100 and 128, compaction family', 'C19': 'fall-back harness with a pre-existing block in either type'}
# ---- thorough tier: description generated from the job lists ------------------------------------------------------
LEGEND = {
 "Linear": "linear cfg: 0 empty 100-byte block, 1 empty 128-byte block, 2 ring buffer L3(3,j,m), 3 double stack L2(2,2), 4 stack L1(4) with freed middle entries, 5/6 compaction family with/without an upper stack, 7 small ring L3(2,1,2), 8 ring L3(2,1,3) with one symbolic size",
 "TLSF": "TLSF cfg = 10*scenario + block: block 0/1/2/3 = 256/320/1000/4096 bytes; scenario 0 history from the empty block, 1 recipe T(n,F,pi), 2 three holes in one free list, 3 one hole at an unaligned offset (C05 search: 0/1 recipes T(3)/T(2), 2 bucket-boundary recipe, 3 its light variant, 4 merge recipe, 5 padded-out recipe)",
 "Defrag": "planner cfg = algorithm (0 Fast, 1 Full) + 2*layout (0: one block, 1: two blocks, 2: three blocks) + 6*(symbolic per-pass limits)",
 "vam": "vam cfg: low 5 bits = device variant (1 granularity 1024, 2 nonCoherentAtomSize 64, 4 heap size limits, 8 maxMemoryAllocationCount 2, 16 excluded AMD device-coherent type); higher bits select the scenario of the entry (Hist: 32 custom pools, 64 multi-allocations, 96 pool index sweep; Faults: cfg/32 = operation 0..7; Maps: 32 non-coherent type, 64 flush focus, 128 odd-sized pool block, 256 hysteresis window-phase sweep; VDefrag: 32 Fast instead of Full algorithm, 64 five allocations, 128 mapped-neighbour layout, 192 pool with MinAllocationAlignment 32; Pages: cfg%2 linear, cfg/2%3 granularity 16/1024/4096, 6+ page-boundary recipe, 12+ double-stack script (lower request, upper request, one arbitrary operation); Select: N=3+cfg%4 types, 4 integrated GPU, 8 AMD extension)",
}
def legend_for(entry):
    if "Linear" in entry: return "Linear"
    if "TLSF" in entry: return "TLSF"
    if entry.startswith("Verif_Defrag"): return "Defrag"
    return "vam"
for cid, c in checks.items():
    parts, deep, legs = [], [], []
    for j in c["jobs"]:
        if j["cfgs_thorough"]:
            parts.append("%s cfgs %s" % (j["entry"], j["cfgs_thorough"]))
        if j["cfgs_deep"]:
            deep.append("%s cfgs %s" % (j["entry"], j["cfgs_deep"]))
        l = legend_for(j["entry"])
        if l not in legs: legs.append(l)
    t = ""
    if parts:
        t += "History depths, symbolic inputs and oracles as in the quick tier, on more configurations (block sizes, recipes, device variants): " + "; ".join(parts) + ". "
    if deep:
        t += "Deeper variant (one more operation or call per history: linear 4 operations from the empty block and 3 after a recipe; map scripts with 0/3/4 pairs; fault harness with a longer fault-free pre-history and 2 faults everywhere; " + DEEP_NOTE.get(cid, "other entries as stated in their harness") + "): " + "; ".join(deep) + ". "
    t += "24 instead of 6 native validations per job; 480/160 instead of 40/10 queries re-decided by the other solvers. Legend: " + " | ".join(LEGEND[l] for l in legs)
    c["bounds_thorough"] = t

json.dump(checks, open("/verif/checks.json", "w"), indent=1)
print("wrote", len(checks), "checks")
