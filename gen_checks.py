#!/usr/bin/env python3
"""Generates checks.json (the registry read by the engine). Edit here, run, commit both."""
import json

MD = {"module": "memutils", "pkg": "metadata"}
def job(entry, q, t, **kw):
    d = dict(MD); d.update(kw); d.update({"entry": entry, "cfgs_quick": q, "cfgs_thorough": t}); return d

BLOCK_ASSUME = ["granularity handler without rules (granularity 1) unless stated", "default build (DebugMargin 0)",
                "user data is never nil (the linear algorithm uses nil as its free marker)", "alignment is a power of two",
                "handles passed to free/lookup belong to live allocations"]
LIN_Q = "linear: all histories of 3 operations (lower/upper request+commit with symbolic size in [1,2B] and alignment 2^0..2^5, free of any live allocation) from an empty 100-byte block"
LIN_RECIPES = "recipe states: small ring buffer L3(2,1,2), ring buffer L3(3,j,m) (j in {1,2} freed at the front, m in {2,3,4} wrapped around), double stack L2(2,2), stack L1(4) with both middle entries freed, compaction family (36 entries in the first vector, 21 freed in the middle, with and without an upper stack), each followed by arbitrary operations"
TLSF_Q = "TLSF: recipe state with three holes of symbolic sizes 1..64 in one free list (freed in every order) + 1 operation; all histories of 3 operations (request+commit with symbolic size in [1,2B], alignment 2^0..2^6, strategy in {0,1,2,4}; free of any live allocation) on blocks of 256 and 320 bytes"
OUT = "histories longer than stated from the stated recipe states; block sizes other than those listed; granularity rules (covered by C09); debug_mem_utils builds"

checks = {}
checks["C01"] = {
 "level": "model_checking",
 "jobs": [job("Verif_C01_Linear", [0, 2, 3, 4, 5, 6, 7], [0, 1, 2, 3, 4, 5, 6, 7]), job("Verif_C01_TLSF", [0, 1, 20], [0, 1, 2, 10, 11, 20, 21])],
 "bounds_quick": LIN_Q + "; " + LIN_RECIPES + " (quick: without the ring-buffer recipe; 2 operations after a recipe, 1 after compaction); " + TLSF_Q,
 "bounds_thorough": "as quick with 4 operations per history (3 after a recipe, 2 after compaction), block sizes 100 and 128 (linear) / 256, 320, 1000 (TLSF), ring-buffer recipe, TLSF recipe T(n<=4,F,pi) + 2 operations",
 "assumptions": BLOCK_ASSUME, "outside": OUT}
checks["C03"] = {
 "level": "model_checking",
 "jobs": [job("Verif_C03_Linear", [0, 4, 5, 7], [0, 1, 2, 3, 4, 5, 6, 7]), job("Verif_C03_TLSF", [0, 1, 20], [0, 1, 2, 10, 11, 20, 21])],
 "bounds_quick": LIN_Q + " and the compaction family with an upper stack + 1 operation; " + TLSF_Q.replace("256 and 320", "256") + ". After every operation: tiling of the enumerated regions, allocation count, free bytes, emptiness flag, Statistics, DetailedStatistics (min/max, unused ranges) against the harness' own live set, and Validate()==nil (Validate is executed symbolically as code under test).",
 "bounds_thorough": "as quick with 4 operations, all linear recipes, TLSF blocks 256/320 and recipe T(n<=4,F,pi)",
 "assumptions": BLOCK_ASSUME, "outside": OUT}
checks["C05"] = {
 "level": "model_checking",
 "jobs": [job("Verif_C05_TLSF_Lemmas", list(range(15)), list(range(15))), job("Verif_C05_TLSF_Search", [10, 11], [0, 1, 10, 11, 22])],
 "bounds_quick": "lemmas at full 64-bit width for 15 block sizes (1 .. 2^62+12345): list index and memory class monotone in the size, in range of the arrays sized by Init, next-list rounding only reaches fitting sizes; search: recipe T(2,F,pi) on 256/320-byte blocks (2 allocations, 0-2 frees in any order), then one request with symbolic size, alignment 2^0..2^6, strategy, optional symbolic offset bound, compared with an exhaustive scan of the region list",
 "bounds_thorough": "search additionally from T(n<=4,F,pi) and from the bucket-boundary recipe on a 1000-byte block (two holes of symbolic size 1..300, symbolic trailing free space 0..200, request size symbolic, every strategy): covers every combination of free-list buckets of hole and request sizes",
 "assumptions": BLOCK_ASSUME + ["granularity rules in force: none (null handler); the granularity-aware variant is part of C09's harness"], "outside": OUT}
checks["C06"] = {
 "level": "model_checking",
 "jobs": [job("Verif_C06_Linear", [0, 3, 5, 7], [0, 1, 2, 3, 4, 5, 6, 7]), job("Verif_C06_TLSF", [0, 1, 20], [0, 1, 10, 11, 20, 21])],
 "bounds_quick": LIN_Q + ", double-stack recipe and compaction family; " + TLSF_Q + "; after the history every remaining allocation is freed in ascending or descending order of age",
 "bounds_thorough": "all linear recipes, 4 operations, TLSF recipes",
 "assumptions": BLOCK_ASSUME, "outside": OUT}
checks["C13"] = {
 "level": "model_checking",
 "jobs": [job("Verif_C13_Linear", [0, 3, 4, 7], [0, 1, 2, 3, 4, 5, 6, 7]), job("Verif_C13_TLSF", [0, 1, 20], [0, 1, 2, 10, 20])],
 "bounds_quick": LIN_Q + " + recipes L2(2,2), L1(4) with 2 operations; " + TLSF_Q + "; every call runs inside a panic catcher; a refusal must leave all observables unchanged. Block level only (the allocator-level clauses are checked by the vam harnesses).",
 "bounds_thorough": "all recipes, 4 operations",
 "assumptions": BLOCK_ASSUME, "outside": OUT + "; stale handles; alignment 0"}
checks["C16"] = {
 "level": "model_checking",
 "jobs": [job("Verif_C16_Linear", [0, 2, 3, 4, 7], [0, 1, 2, 3, 4, 5, 6, 7])],
 "bounds_quick": LIN_Q + "; " + LIN_RECIPES + " (2 operations after a recipe); success flag and granted offset of every request, and acceptance of every free, compared in lock-step with an independent reference model (sets of live entries; no lazy deletion, no compaction) written from the property statement",
 "bounds_thorough": "4 operations (3 after a recipe), block sizes 100 and 128, compaction family",
 "assumptions": BLOCK_ASSUME + ["granularity 1: no conflict relation in force (granularity bumps are checked against the page rule by C09)"], "outside": OUT}
checks["C17"] = {
 "level": "model_checking",
 "jobs": [job("Verif_C17_Linear", [0, 3, 4, 7], [0, 1, 2, 3, 4, 5, 6, 7]), job("Verif_C17_TLSF", [0, 1, 20], [0, 1, 10, 20])],
 "bounds_quick": LIN_Q + " + recipes L2(2,2), L1(4); " + TLSF_Q + "; after every operation: user data and offset by handle for every live allocation, SetAllocationUserData on each allocation in turn, region visitor and (TLSF) list iteration visit every live allocation exactly once",
 "bounds_thorough": "all recipes, 4 operations",
 "assumptions": BLOCK_ASSUME, "outside": OUT}
checks["C18"] = {
 "level": "model_checking",
 "jobs": [job("Verif_C18_Linear", [0, 7], [0, 1, 2, 3, 4, 7]), job("Verif_C18_TLSF", [0], [0, 1, 10, 20])],
 "bounds_quick": LIN_Q + "; " + TLSF_Q.replace("256 and 320", "256") + "; TLSF: no two adjacent free ranges after every operation; then everything is freed (either order) or the block is cleared, and the block is compared with a freshly initialised one: observables, internal state modulo documented symmetries, and 2 further symbolic requests answered in lock-step",
 "bounds_thorough": "4 operations, linear recipes, TLSF 320 bytes and recipe",
 "assumptions": BLOCK_ASSUME, "outside": OUT}

DF = {"module": "memutils", "pkg": "defrag"}
def djob(entry, q, t):
    d = dict(DF); d.update({"entry": entry, "cfgs_quick": q, "cfgs_thorough": t}); return d
DEFRAG_ASSUME = ["BlockList and move handler written in the harness from the documentation of defrag.BlockList / DefragmentationMove (mirrors vam's use)", "TLSF blocks of 256 bytes, granularity 1", "default build"]
DEFRAG_B = "real MetadataDefragContext over an in-harness BlockList of real TLSF blocks (256 bytes each): layouts 1 block x 3 allocations, 2 blocks x (2,1), 3 blocks x (1,1,1), symbolic sizes, one allocation freed (any); both algorithms; up to 2 passes; per pass one symbolic-free decision copy/ignore/destroy applied to all moves"
checks["C07"] = {
 "level": "model_checking",
 "jobs": [djob("Verif_Defrag_Run", [0, 1, 2, 3, 4, 5], list(range(12)))],
 "bounds_quick": DEFRAG_B + ". memutils layer only (the vam layer is checked by the vam harnesses).",
 "bounds_thorough": "layouts 1x4, 2x(3,2), 3x(2,2,2) with 0-3 frees and one symbolic alignment, 3 passes, an independent decision per move, with and without symbolic per-pass limits",
 "assumptions": DEFRAG_ASSUME, "outside": "more blocks/allocations/passes than stated; granularity handlers; the vam consumer"}
checks["C15"] = {
 "level": "model_checking",
 "jobs": [djob("Verif_Defrag_Run", [6, 7, 8, 9, 10, 11], list(range(12))), djob("Verif_Defrag_Reuse", [0, 1], [0, 1])],
 "bounds_quick": DEFRAG_B + "; per-pass byte limit symbolic in [1,1024] and allocation limit symbolic in [1,8]; reuse: a context that completed a run with an ignored move on another block list vs. a fresh context on an identical 2-block state (symbolic sizes)",
 "bounds_thorough": "as C07 thorough",
 "assumptions": DEFRAG_ASSUME + ["termination is not decided: every explored run either ends with an empty pass within the pass bound or is cut at the bound (reach label pass-bound-reached); forward progress per move is what is asserted"],
 "outside": "termination for larger shapes; limits of 0 (vam replaces 0 by MaxInt before calling memutils)"}

json.dump(checks, open("/verif/checks.json", "w"), indent=1)
print("wrote", len(checks), "checks")
