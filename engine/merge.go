package main

import (
	"go/token"
	"go/types"

	"golang.org/x/tools/go/ssa"
)

// If-conversion of small side-effect-free diamonds and triangles: `if c { x = a } else { x = b }` with a symbolic c is
// executed once, both arms speculatively with buffered stores, and the results are merged with ite terms instead of
// forking the path. Anything not provably simple (calls, nested branches, possible panics, non-scalar stores)
// falls back to ordinary forking. Semantics are unchanged; only the number of paths is.

type specStore struct {
	p Ptr
	v Value
}

type specArm struct {
	stores []specStore
	ok     bool
}

func simpleBlock(b *ssa.BasicBlock) bool {
	if len(b.Instrs) > 14 {
		return false
	}
	for _, ins := range b.Instrs {
		switch x := ins.(type) {
		case *ssa.BinOp:
			switch x.Op {
			case token.QUO, token.REM:
				return false
			case token.SHL, token.SHR:
				if _, isConst := x.Y.(*ssa.Const); !isConst {
					if bt, ok := x.Y.Type().Underlying().(*types.Basic); !ok || bt.Info()&types.IsUnsigned == 0 {
						return false
					}
				}
			}
		case *ssa.UnOp:
			if x.Op == token.ARROW {
				return false
			}
		case *ssa.FieldAddr, *ssa.Field, *ssa.Convert, *ssa.ChangeType, *ssa.Store, *ssa.DebugRef, *ssa.Jump, *ssa.Phi:
		default:
			return false
		}
	}
	_, endsInJump := b.Instrs[len(b.Instrs)-1].(*ssa.Jump)
	return endsInJump
}

// mergeShape recognises the control-flow shapes that can be if-converted and returns the arms (nil = empty arm,
// i.e. the edge goes directly to the join) and the join block.
func mergeShape(b *ssa.BasicBlock) (t, f, join *ssa.BasicBlock, ok bool) {
	T, F := b.Succs[0], b.Succs[1]
	single := func(x *ssa.BasicBlock) bool { return len(x.Preds) == 1 && len(x.Succs) == 1 && simpleBlock(x) }
	switch {
	case single(T) && single(F) && T.Succs[0] == F.Succs[0] && T != F:
		return T, F, T.Succs[0], true
	case single(T) && T.Succs[0] == F && T != F:
		return T, nil, F, true
	case single(F) && F.Succs[0] == T && T != F:
		return nil, F, T, true
	}
	return nil, nil, nil, false
}

func (in *Interp) specLoad(arm *specArm, p Ptr) (Value, bool) {
	if p.c == nil {
		return nil, false
	}
	for i := len(arm.stores) - 1; i >= 0; i-- {
		if arm.stores[i].p == p {
			return arm.stores[i].v, true
		}
	}
	return copyVal(p.c.slots[p.i]), true
}

// runArm executes a simple block speculatively. Stores are buffered; SSA values are written to the frame
// environment (they are only used inside the arm or by phis of the join).
func (in *Interp) runArm(fr *frame, blk *ssa.BasicBlock, pred *ssa.BasicBlock) (arm *specArm) {
	arm = &specArm{}
	defer func() {
		if r := recover(); r != nil {
			switch r.(type) {
			case goPanic, abortPath:
				arm.ok = false // would panic or is unsupported: let the ordinary execution deal with it
			default:
				panic(r)
			}
		}
	}()
	for _, ins := range blk.Instrs {
		switch x := ins.(type) {
		case *ssa.Phi:
			for i, p := range blk.Preds {
				if p == pred {
					fr.env[x] = in.get(fr, x.Edges[i])
				}
			}
		case *ssa.Store:
			p, isP := in.get(fr, x.Addr).(Ptr)
			if !isP || p.c == nil {
				return
			}
			arm.stores = append(arm.stores, specStore{p, copyVal(in.get(fr, x.Val))})
		case *ssa.UnOp:
			if x.Op == token.MUL {
				p, isP := in.get(fr, x.X).(Ptr)
				if !isP {
					return
				}
				v, ok := in.specLoad(arm, p)
				if !ok {
					return
				}
				fr.env[x] = v
			} else {
				fr.env[x] = in.eval(fr, x)
			}
		case *ssa.DebugRef, *ssa.Jump:
		case ssa.Value:
			fr.env[x] = in.eval(fr, x)
		}
	}
	arm.ok = true
	return
}

func (in *Interp) mergeVals(c *Term, a, b Value) (Value, bool) {
	ta, okA := a.(*Term)
	tb, okB := b.(*Term)
	if okA && okB && ta.w == tb.w {
		return in.tb.Ite(c, ta, tb), true
	}
	switch x := a.(type) {
	case Ptr:
		if y, ok := b.(Ptr); ok && x == y {
			return a, true
		}
	case Str:
		if y, ok := b.(Str); ok && x == y {
			return a, true
		}
	}
	return nil, false
}

// tryMerge attempts the if-conversion at block b (which ends in an If on the symbolic condition c).
// On success it returns the join block and has set fr.phiOverride for the join's phis.
func (in *Interp) tryMerge(fr *frame, b *ssa.BasicBlock, c *Term) (*ssa.BasicBlock, bool) {
	T, F, J, ok := mergeShape(b)
	if !ok {
		return nil, false
	}
	armT, armF := &specArm{ok: true}, &specArm{ok: true}
	if T != nil {
		if armT = in.runArm(fr, T, b); !armT.ok {
			return nil, false
		}
	}
	if F != nil {
		if armF = in.runArm(fr, F, b); !armF.ok {
			return nil, false
		}
	}
	// phis of the join
	over := map[*ssa.Phi]Value{}
	predT, predF := T, F
	if predT == nil {
		predT = b
	}
	if predF == nil {
		predF = b
	}
	for _, ins := range J.Instrs {
		phi, isPhi := ins.(*ssa.Phi)
		if !isPhi {
			break
		}
		var vT, vF Value
		for i, p := range J.Preds {
			if p == predT {
				vT = in.get(fr, phi.Edges[i])
			}
			if p == predF {
				vF = in.get(fr, phi.Edges[i])
			}
		}
		m, ok := in.mergeVals(c, vT, vF)
		if !ok {
			return nil, false
		}
		over[phi] = m
	}
	if len(J.Preds) != 2 {
		// other predecessors exist: the phi override must only apply to this entry; handled by clearing after use
	}
	// merged stores
	type pending struct {
		p Ptr
		v Value
	}
	var commits []pending
	seen := map[Ptr]bool{}
	collect := func(arm, other *specArm, armIsThen bool) bool {
		for i := len(arm.stores) - 1; i >= 0; i-- {
			p := arm.stores[i].p
			if seen[p] {
				continue
			}
			seen[p] = true
			mine := arm.stores[i].v
			theirs, _ := in.specLoad(other, p)
			var m Value
			var ok bool
			if armIsThen {
				m, ok = in.mergeVals(c, mine, theirs)
			} else {
				m, ok = in.mergeVals(c, theirs, mine)
			}
			if !ok {
				return false
			}
			commits = append(commits, pending{p, m})
		}
		return true
	}
	if !collect(armT, armF, true) || !collect(armF, armT, false) {
		return nil, false
	}
	for _, cm := range commits {
		cm.p.c.slots[cm.p.i] = cm.v
	}
	fr.phiOverride = over
	in.merged++
	return J, true
}
