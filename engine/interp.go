package main

import (
	"fmt"
	"go/constant"
	"go/token"
	"go/types"
	"os"

	"golang.org/x/tools/go/ssa"
)

type Value interface{}
type Cont struct{ slots []Value }
type Ptr struct {
	c *Cont
	i int
}
type Slice struct {
	c             *Cont
	off, len, cap int
}
type Iface struct {
	t types.Type
	v Value
}
type Closure struct {
	fn  *ssa.Function
	env []Value
}
type Str string
type Tuple []Value
type MapObj struct {
	keys []Value
	vals []Value
}
type mapIter struct {
	m    *MapObj
	left []int
}
type strIter struct {
	s   string
	pos int
}

// RawPtr is an unsafe.Pointer that does not point into the interpreted heap: an address handed out by the
// simulated environment (mapped device memory). Only arithmetic and comparison are possible on it.
type RawPtr struct{ addr *Term }
type goPanic struct{ v Value }
type abortPath struct{ why string }

type Interp struct {
	prog    *ssa.Program
	tb      *TB
	ex      *Explorer
	globals map[*ssa.Global]*Cont
	addrOf  map[Ptr]uint64
	ptrAt   map[uint64]Ptr
	steps   int
	budget  int
	funcs   map[string]string
	targets map[*ssa.Package]bool
	errType types.Type
	depth   int
	pool    map[*Cont][]Value // sync.Pool contents keyed by the pool object
	inited  map[*ssa.Package]bool
	tier    int
	merged  int
	noMerge bool
	sched   *Sched  // non-nil once the harness has spawned a goroutine (verifGo)
	thread  *thread // the interpreted goroutine this interpreter instance runs
	shared  *sharedState
	curPos  token.Pos
}

// sharedState holds mutable scalars shared by the interpreter instances of all goroutines of one path.
type sharedState struct {
	nextAdr uint64
}

func NewInterp(prog *ssa.Program, tb *TB, ex *Explorer, targets map[*ssa.Package]bool, funcs map[string]string, budget int) *Interp {
	return &Interp{prog: prog, tb: tb, ex: ex, globals: map[*ssa.Global]*Cont{}, addrOf: map[Ptr]uint64{}, ptrAt: map[uint64]Ptr{},
		shared: &sharedState{nextAdr: 0xc000000000}, funcs: funcs, targets: targets, errType: types.Universe.Lookup("error").Type(), budget: budget,
		pool: map[*Cont][]Value{}, inited: map[*ssa.Package]bool{}, noMerge: os.Getenv("VERIF_NOMERGE") != ""}
}

func copyVal(v Value) Value {
	if c, ok := v.(*Cont); ok && c != nil {
		n := &Cont{slots: make([]Value, len(c.slots))}
		for i, s := range c.slots {
			n.slots[i] = copyVal(s)
		}
		return n
	}
	return v
}

func widthOf(t types.Type) (int, bool) {
	b, ok := t.Underlying().(*types.Basic)
	if !ok {
		panic("widthOf non-basic " + t.String())
	}
	switch b.Kind() {
	case types.Int, types.Int64:
		return 64, true
	case types.Uint, types.Uint64, types.Uintptr:
		return 64, false
	case types.Int32:
		return 32, true
	case types.Uint32:
		return 32, false
	case types.Int16:
		return 16, true
	case types.Uint16:
		return 16, false
	case types.Int8:
		return 8, true
	case types.Uint8:
		return 8, false
	case types.UntypedInt:
		return 64, true
	}
	panic("widthOf " + t.String())
}
func isInt(t types.Type) bool {
	b, ok := t.Underlying().(*types.Basic)
	return ok && b.Info()&types.IsInteger != 0
}

func (in *Interp) zero(t types.Type) Value {
	switch u := t.Underlying().(type) {
	case *types.Basic:
		switch {
		case u.Info()&types.IsBoolean != 0:
			return in.tb.Bool(false)
		case u.Info()&types.IsInteger != 0:
			w, _ := widthOf(t)
			return in.tb.Const(w, 0)
		case u.Info()&types.IsString != 0:
			return Str("")
		case u.Kind() == types.UnsafePointer:
			return Ptr{}
		case u.Info()&types.IsFloat != 0:
			return float64(0)
		}
		panic("zero basic " + t.String())
	case *types.Pointer:
		return Ptr{}
	case *types.Slice:
		return Slice{}
	case *types.Struct:
		c := &Cont{slots: make([]Value, u.NumFields())}
		for i := range c.slots {
			c.slots[i] = in.zero(u.Field(i).Type())
		}
		return c
	case *types.Array:
		c := &Cont{slots: make([]Value, u.Len())}
		for i := range c.slots {
			c.slots[i] = in.zero(u.Elem())
		}
		return c
	case *types.Interface:
		return Iface{}
	case *types.Map:
		return (*MapObj)(nil)
	case *types.Signature:
		return nil
	case *types.Chan:
		return nil
	case *types.Tuple:
		tu := make(Tuple, u.Len())
		for i := range tu {
			tu[i] = in.zero(u.At(i).Type())
		}
		return tu
	}
	panic("zero " + t.String())
}

type frame struct {
	fn          *ssa.Function
	env         map[ssa.Value]Value
	defers      []func()
	phiOverride map[*ssa.Phi]Value
}

func (in *Interp) constVal(c *ssa.Const) Value {
	t := c.Type()
	if c.Value == nil {
		return in.zero(t)
	}
	switch u := t.Underlying().(type) {
	case *types.Basic:
		switch {
		case u.Info()&types.IsBoolean != 0:
			return in.tb.Bool(constant.BoolVal(c.Value))
		case u.Info()&types.IsInteger != 0:
			w, _ := widthOf(t)
			if v, ok := constant.Int64Val(constant.ToInt(c.Value)); ok {
				return in.tb.Const(w, uint64(v))
			}
			v, _ := constant.Uint64Val(constant.ToInt(c.Value))
			return in.tb.Const(w, v)
		case u.Info()&types.IsString != 0:
			return Str(constant.StringVal(c.Value))
		case u.Info()&types.IsFloat != 0:
			f, _ := constant.Float64Val(c.Value)
			return f
		}
	}
	panic("const " + c.String())
}

func (in *Interp) get(fr *frame, v ssa.Value) Value {
	switch x := v.(type) {
	case *ssa.Const:
		return in.constVal(x)
	case *ssa.Global:
		g, ok := in.globals[x]
		if !ok {
			g = &Cont{slots: []Value{in.zero(x.Type().(*types.Pointer).Elem())}}
			in.globals[x] = g
		}
		return Ptr{g, 0}
	case *ssa.Function:
		return x
	case *ssa.Builtin:
		return x
	}
	r, ok := fr.env[v]
	if !ok {
		panic(fmt.Sprintf("unbound %s in %s", v.Name(), fr.fn))
	}
	return r
}

func (in *Interp) goPanicStr(s string) { panic(goPanic{Iface{types.Typ[types.String], Str(s)}}) }

func (in *Interp) load(p Ptr) Value {
	if p.c == nil {
		in.goPanicStr("nil pointer dereference")
	}
	if in.sched != nil {
		in.sched.onAccess(in.thread, p, false, in.curPos)
	}
	return copyVal(p.c.slots[p.i])
}
func (in *Interp) store(p Ptr, v Value) {
	if p.c == nil {
		in.goPanicStr("nil pointer dereference")
	}
	if in.sched != nil {
		in.sched.onAccess(in.thread, p, true, in.curPos)
	}
	p.c.slots[p.i] = copyVal(v)
}

// concrete int from term, concretizing if symbolic
func (in *Interp) concInt(t *Term) int {
	if !t.IsConst() {
		v := in.ex.concretize(t)
		return int(sext(v, t.w))
	}
	return int(sext(t.val, t.w))
}

func (in *Interp) noteFunc(fn *ssa.Function) {
	name := fn.String()
	if _, ok := in.funcs[name]; !ok {
		file := ""
		if fn.Pkg != nil && in.targets[fn.Pkg] && fn.Pos().IsValid() {
			file = in.prog.Fset.Position(fn.Pos()).Filename
		} else if p := fn.Parent(); p != nil && p.Pkg != nil && in.targets[p.Pkg] && fn.Pos().IsValid() {
			file = in.prog.Fset.Position(fn.Pos()).Filename
		}
		in.funcs[name] = file
	}
}

func (in *Interp) call(fn *ssa.Function, args []Value) (ret Value) {
	name := fn.String()
	if r, ok := in.intercept(fn, name, args); ok {
		return r
	}
	if fn.Blocks == nil {
		panic(abortPath{"no body: " + name})
	}
	in.noteFunc(fn)
	fr := &frame{fn: fn, env: make(map[ssa.Value]Value, 16)}
	for i, p := range fn.Params {
		fr.env[p] = args[i]
	}
	in.depth++
	if in.depth > 400 {
		panic(abortPath{"step budget"})
	}
	defer func() { in.depth-- }()
	return in.run(fr, nil)
}

func (in *Interp) callClosure(c *Closure, args []Value) Value {
	fn := c.fn
	in.noteFunc(fn)
	fr := &frame{fn: fn, env: make(map[ssa.Value]Value, 16)}
	for i, p := range fn.Params {
		fr.env[p] = args[i]
	}
	for i, fv := range fn.FreeVars {
		fr.env[fv] = c.env[i]
	}
	in.depth++
	if in.depth > 400 {
		panic(abortPath{"step budget"})
	}
	defer func() { in.depth-- }()
	return in.run(fr, nil)
}

// initPackages runs the package initialisers of the code under test (imports first).
func (in *Interp) initPackages(p *ssa.Package) {
	if p == nil || in.inited[p] {
		return
	}
	in.inited[p] = true
	for _, imp := range p.Pkg.Imports() {
		if ip := in.prog.Package(imp); ip != nil && in.targets[ip] {
			in.initPackages(ip)
		}
	}
	if f := p.Func("init"); f != nil && f.Blocks != nil {
		in.callInit(f)
	}
}

func (in *Interp) callInit(f *ssa.Function) {
	in.noteFunc(f)
	fr := &frame{fn: f, env: map[ssa.Value]Value{}}
	in.run(fr, nil)
}

func (in *Interp) callValue(f Value, args []Value) Value {
	switch x := f.(type) {
	case *ssa.Function:
		return in.call(x, args)
	case *Closure:
		return in.callClosure(x, args)
	}
	panic(fmt.Sprintf("callValue %T", f))
}

func (in *Interp) runDefers(fr *frame) {
	for len(fr.defers) > 0 {
		d := fr.defers[len(fr.defers)-1]
		fr.defers = fr.defers[:len(fr.defers)-1]
		d()
	}
}

func (in *Interp) run(fr *frame, _ interface{}) (ret Value) {
	defer func() {
		if r := recover(); r != nil {
			if _, ok := r.(goPanic); ok {
				in.runDefers(fr)
			}
			panic(r)
		}
	}()
	var prev *ssa.BasicBlock
	b := fr.fn.Blocks[0]
	for {
		var next *ssa.BasicBlock
		mergedNow := false
		for _, ins := range b.Instrs {
			in.steps++
			if in.steps > in.budget {
				panic(abortPath{"step budget"})
			}
			switch x := ins.(type) {
			case *ssa.Phi:
				if v, ok := fr.phiOverride[x]; ok {
					fr.env[x] = v
					continue
				}
				for i, p := range b.Preds {
					if p == prev {
						fr.env[x] = in.get(fr, x.Edges[i])
						break
					}
				}
			case *ssa.If:
				c := in.get(fr, x.Cond).(*Term)
				if in.ex.stats != nil && !c.IsConst() {
					in.ex.curSite = in.prog.Fset.Position(x.Cond.Pos()).String()
				}
				if !c.IsConst() && !in.noMerge {
					if j, ok := in.tryMerge(fr, b, c); ok {
						next = j
						mergedNow = true
						break
					}
				}
				if in.ex.branch(c) {
					next = b.Succs[0]
				} else {
					next = b.Succs[1]
				}
			case *ssa.Jump:
				next = b.Succs[0]
			case *ssa.Return:
				switch len(x.Results) {
				case 0:
					return nil
				case 1:
					return in.get(fr, x.Results[0])
				default:
					t := make(Tuple, len(x.Results))
					for i, r := range x.Results {
						t[i] = in.get(fr, r)
					}
					return t
				}
			case *ssa.Panic:
				panic(goPanic{in.get(fr, x.X)})
			case *ssa.Store:
				in.curPos = x.Pos()
				in.store(in.get(fr, x.Addr).(Ptr), in.get(fr, x.Val))
			case *ssa.RunDefers:
				in.runDefers(fr)
			case *ssa.Defer:
				args := in.callArgs(fr, &x.Call)
				fv, recv := in.resolveCallee(fr, &x.Call)
				fr.defers = append(fr.defers, func() { in.invoke(fv, recv, args, &x.Call) })
			case *ssa.MapUpdate:
				m := in.get(fr, x.Map).(*MapObj)
				k := in.get(fr, x.Key)
				found := false
				for i := range m.keys {
					if in.eqConcrete(m.keys[i], k) {
						m.vals[i] = in.get(fr, x.Value)
						found = true
					}
				}
				if !found {
					m.keys = append(m.keys, k)
					m.vals = append(m.vals, in.get(fr, x.Value))
				}
			case *ssa.DebugRef:
			case ssa.Value:
				fr.env[x] = in.eval(fr, x)
			default:
				panic(fmt.Sprintf("instr %T", ins))
			}
		}
		if !mergedNow && fr.phiOverride != nil {
			fr.phiOverride = nil
		}
		prev, b = b, next
	}
}

func (in *Interp) eqConcrete(a, b Value) bool {
	switch x := a.(type) {
	case *Term:
		y := b.(*Term)
		if x.IsConst() && y.IsConst() {
			return x.val == y.val
		}
		return in.ex.branch(in.tb.Cmp("=", x, y))
	case Ptr:
		return x == b.(Ptr)
	case Str:
		return x == b.(Str)
	case Iface:
		y := b.(Iface)
		if x.t == nil || y.t == nil {
			return x.t == nil && y.t == nil
		}
		if !types.Identical(x.t, y.t) {
			return false
		}
		return in.eqConcrete(x.v, y.v)
	case *Cont:
		y := b.(*Cont)
		for i := range x.slots {
			if !in.eqConcrete(x.slots[i], y.slots[i]) {
				return false
			}
		}
		return true
	case nil:
		return b == nil
	}
	panic(fmt.Sprintf("eqConcrete %T", a))
}

func (in *Interp) callArgs(fr *frame, c *ssa.CallCommon) []Value {
	args := make([]Value, len(c.Args))
	for i, a := range c.Args {
		args[i] = in.get(fr, a)
	}
	return args
}

func (in *Interp) resolveCallee(fr *frame, c *ssa.CallCommon) (Value, Value) {
	if c.IsInvoke() {
		return nil, in.get(fr, c.Value)
	}
	return in.get(fr, c.Value), nil
}

func (in *Interp) invoke(fv Value, recv Value, args []Value, c *ssa.CallCommon) Value {
	if c.IsInvoke() {
		ifc := recv.(Iface)
		if ifc.t == nil {
			in.goPanicStr("nil pointer dereference (method call on nil interface)")
		}
		if ifc.t == in.errType { // opaque error value made by a stubbed constructor
			if c.Method.Name() == "Error" {
				return ifc.v
			}
			panic(abortPath{"unsupported method on opaque error: " + c.Method.Name()})
		}
		ms := in.prog.MethodSets.MethodSet(ifc.t)
		sel := ms.Lookup(c.Method.Pkg(), c.Method.Name())
		if sel == nil {
			panic("method not found " + c.Method.Name() + " on " + ifc.t.String())
		}
		fn := in.prog.MethodValue(sel)
		if fn == nil {
			panic(abortPath{"unsupported: abstract method " + c.Method.Name() + " on " + ifc.t.String()})
		}
		return in.call(fn, append([]Value{ifc.v}, args...))
	}
	switch f := fv.(type) {
	case *ssa.Builtin:
		return in.builtin(f, args, c)
	case nil:
		in.goPanicStr("nil pointer dereference (call of nil func)")
		return nil
	default:
		return in.callValue(fv, args)
	}
}

func (in *Interp) builtin(b *ssa.Builtin, args []Value, c *ssa.CallCommon) Value {
	switch b.Name() {
	case "len":
		switch x := args[0].(type) {
		case Slice:
			return in.tb.Const(64, uint64(x.len))
		case Str:
			return in.tb.Const(64, uint64(len(x)))
		case *Cont:
			return in.tb.Const(64, uint64(len(x.slots)))
		case *MapObj:
			if x == nil {
				return in.tb.Const(64, 0)
			}
			return in.tb.Const(64, uint64(len(x.keys)))
		}
	case "cap":
		return in.tb.Const(64, uint64(args[0].(Slice).cap))
	case "append":
		s := args[0].(Slice)
		t := args[1].(Slice)
		n := s.len + t.len
		if n <= s.cap {
			for i := 0; i < t.len; i++ {
				s.c.slots[s.off+s.len+i] = copyVal(t.c.slots[t.off+i])
			}
			s.len = n
			return s
		}
		nc := n * 2
		if nc < 4 {
			nc = 4
		}
		c2 := &Cont{slots: make([]Value, nc)}
		el := c.Args[0].Type().Underlying().(*types.Slice).Elem()
		for i := range c2.slots {
			c2.slots[i] = in.zero(el)
		}
		for i := 0; i < s.len; i++ {
			c2.slots[i] = copyVal(s.c.slots[s.off+i])
		}
		for i := 0; i < t.len; i++ {
			c2.slots[s.len+i] = copyVal(t.c.slots[t.off+i])
		}
		return Slice{c2, 0, n, nc}
	case "delete":
		m := args[0].(*MapObj)
		if m != nil {
			for i := range m.keys {
				if in.eqConcrete(m.keys[i], args[1]) {
					m.keys = append(append([]Value{}, m.keys[:i]...), m.keys[i+1:]...)
					m.vals = append(append([]Value{}, m.vals[:i]...), m.vals[i+1:]...)
					break
				}
			}
		}
		return nil
	case "copy":
		d, sc := args[0].(Slice), args[1].(Slice)
		n := min(d.len, sc.len)
		tmp := make([]Value, n)
		for i := 0; i < n; i++ {
			tmp[i] = copyVal(sc.c.slots[sc.off+i])
		}
		for i := 0; i < n; i++ {
			d.c.slots[d.off+i] = tmp[i]
		}
		return in.tb.Const(64, uint64(n))
	case "min", "max":
		r := args[0].(*Term)
		_, signed := widthOf(c.Args[0].Type())
		for _, a := range args[1:] {
			t := a.(*Term)
			op := "bvult"
			if signed {
				op = "bvslt"
			}
			lt := in.tb.Cmp(op, t, r)
			if b.Name() == "max" {
				lt = in.tb.Cmp(op, r, t)
			}
			r = in.tb.Ite(lt, t, r)
		}
		return r
	case "Add": // unsafe.Add
		n := in.tb.Resize(args[1].(*Term), 64, true)
		switch p := args[0].(type) {
		case RawPtr:
			return RawPtr{in.tb.BV("bvadd", p.addr, n)}
		case Ptr:
			if p.c == nil {
				return RawPtr{n}
			}
		}
		panic(abortPath{"unsupported: unsafe.Add on an interpreted object"})
	case "Slice": // unsafe.Slice
		p := args[0].(Ptr)
		n := in.concInt(args[1].(*Term))
		return Slice{p.c, p.i, n, n}
	}
	panic("builtin " + b.Name())
}

func (in *Interp) eval(fr *frame, v ssa.Value) Value {
	switch x := v.(type) {
	case *ssa.Alloc:
		c := &Cont{slots: []Value{in.zero(x.Type().(*types.Pointer).Elem())}}
		return Ptr{c, 0}
	case *ssa.BinOp:
		return in.binop(x.Op, in.get(fr, x.X), in.get(fr, x.Y), x.X.Type(), x.Y.Type())
	case *ssa.UnOp:
		a := in.get(fr, x.X)
		switch x.Op {
		case token.MUL:
			in.curPos = x.Pos()
			return in.load(a.(Ptr))
		case token.NOT:
			return in.tb.Not(a.(*Term))
		case token.SUB:
			return in.tb.BvNeg(a.(*Term))
		case token.XOR:
			return in.tb.BvNot(a.(*Term))
		}
		panic("unop " + x.Op.String())
	case *ssa.Call:
		args := in.callArgs(fr, &x.Call)
		fv, recv := in.resolveCallee(fr, &x.Call)
		return in.invoke(fv, recv, args, &x.Call)
	case *ssa.ChangeType:
		return in.get(fr, x.X)
	case *ssa.ChangeInterface:
		return in.get(fr, x.X)
	case *ssa.Convert:
		return in.convert(in.get(fr, x.X), x.X.Type(), x.Type())
	case *ssa.MakeInterface:
		return Iface{x.X.Type(), in.get(fr, x.X)}
	case *ssa.Extract:
		return in.get(fr, x.Tuple).(Tuple)[x.Index]
	case *ssa.FieldAddr:
		p := in.get(fr, x.X).(Ptr)
		if p.c == nil {
			in.goPanicStr("nil pointer dereference (field)")
		}
		return Ptr{p.c.slots[p.i].(*Cont), x.Field}
	case *ssa.Field:
		return copyVal(in.get(fr, x.X).(*Cont).slots[x.Field])
	case *ssa.IndexAddr:
		base := in.get(fr, x.X)
		idx := in.get(fr, x.Index).(*Term)
		_, signed := widthOf(x.Index.Type())
		idx = in.tb.Resize(idx, 64, signed)
		switch bb := base.(type) {
		case Slice:
			i := in.boundedIndex(idx, bb.len)
			return Ptr{bb.c, bb.off + i}
		case Ptr: // pointer to array
			if bb.c == nil {
				in.goPanicStr("nil array pointer")
			}
			arr := bb.c.slots[bb.i].(*Cont)
			i := in.boundedIndex(idx, len(arr.slots))
			return Ptr{arr, i}
		}
		panic("indexaddr")
	case *ssa.Index:
		base := in.get(fr, x.X)
		idx := in.tb.Resize(in.get(fr, x.Index).(*Term), 64, true)
		switch bb := base.(type) {
		case *Cont:
			i := in.boundedIndex(idx, len(bb.slots))
			return copyVal(bb.slots[i])
		}
		panic("index")
	case *ssa.Slice:
		base := in.get(fr, x.X)
		var lo, hi int = 0, -1
		if x.Low != nil {
			lo = in.concInt(in.get(fr, x.Low).(*Term))
		}
		if x.High != nil {
			hi = in.concInt(in.get(fr, x.High).(*Term))
		}
		switch bb := base.(type) {
		case Slice:
			if hi < 0 {
				hi = bb.len
			}
			if lo < 0 || hi > bb.cap || lo > hi {
				in.goPanicStr("slice bounds out of range")
			}
			return Slice{bb.c, bb.off + lo, hi - lo, bb.cap - lo}
		case Ptr:
			arr := bb.c.slots[bb.i].(*Cont)
			if hi < 0 {
				hi = len(arr.slots)
			}
			if lo < 0 || hi > len(arr.slots) || lo > hi {
				in.goPanicStr("slice bounds out of range")
			}
			return Slice{arr, lo, hi - lo, len(arr.slots) - lo}
		}
		panic("slice")
	case *ssa.MakeSlice:
		n := in.concInt(in.get(fr, x.Len).(*Term))
		cp := in.concInt(in.get(fr, x.Cap).(*Term))
		c := &Cont{slots: make([]Value, cp)}
		el := x.Type().Underlying().(*types.Slice).Elem()
		for i := range c.slots {
			c.slots[i] = in.zero(el)
		}
		return Slice{c, 0, n, cp}
	case *ssa.MakeClosure:
		env := make([]Value, len(x.Bindings))
		for i, b := range x.Bindings {
			env[i] = in.get(fr, b)
		}
		return &Closure{x.Fn.(*ssa.Function), env}
	case *ssa.MakeMap:
		return &MapObj{}
	case *ssa.TypeAssert:
		ifc := in.get(fr, x.X).(Iface)
		ok := false
		if ifc.t != nil {
			if types.IsInterface(x.AssertedType) {
				ok = types.Implements(ifc.t, x.AssertedType.Underlying().(*types.Interface))
			} else {
				ok = types.Identical(ifc.t, x.AssertedType)
			}
		}
		var res Value
		if ok {
			if types.IsInterface(x.AssertedType) {
				res = ifc
			} else {
				res = ifc.v
			}
		} else {
			res = in.zero(x.AssertedType)
		}
		if x.CommaOk {
			return Tuple{res, in.tb.Bool(ok)}
		}
		if !ok {
			in.goPanicStr("interface conversion failed")
		}
		return res
	case *ssa.Range:
		switch m := in.get(fr, x.X).(type) {
		case *MapObj:
			it := &mapIter{m: m}
			if m != nil {
				it.left = make([]int, len(m.keys))
				for i := range it.left {
					it.left[i] = i
				}
			}
			return it
		case Str:
			return &strIter{s: string(m)}
		}
		panic(abortPath{"unsupported: range over " + x.X.Type().String()})
	case *ssa.Next:
		switch it := in.get(fr, x.Iter).(type) {
		case *mapIter:
			mt := x.Iter.(*ssa.Range).X.Type().Underlying().(*types.Map)
			if len(it.left) == 0 {
				return Tuple{in.tb.Bool(false), in.zero(mt.Key()), in.zero(mt.Elem())}
			}
			// Go leaves the iteration order unspecified: every order is explored
			k := in.ex.choice1(len(it.left)) // not a harness input: the native run iterates in whatever order Go picks
			idx := it.left[k]
			it.left = append(append([]int{}, it.left[:k]...), it.left[k+1:]...)
			return Tuple{in.tb.Bool(true), it.m.keys[idx], it.m.vals[idx]}
		case *strIter:
			if it.pos >= len(it.s) {
				return Tuple{in.tb.Bool(false), in.tb.Const(64, 0), in.tb.Const(32, 0)}
			}
			r := []rune(it.s[it.pos:])[0]
			p := it.pos
			it.pos += len(string(r))
			return Tuple{in.tb.Bool(true), in.tb.Const(64, uint64(p)), in.tb.Const(32, uint64(r))}
		}
		panic(abortPath{"unsupported: next"})
	case *ssa.Lookup:
		m := in.get(fr, x.X)
		switch mm := m.(type) {
		case *MapObj:
			k := in.get(fr, x.Index)
			var res Value = in.zero(x.X.Type().Underlying().(*types.Map).Elem())
			found := false
			if mm != nil {
				for i := range mm.keys {
					if in.eqConcrete(mm.keys[i], k) {
						res = mm.vals[i]
						found = true
					}
				}
			}
			if x.CommaOk {
				return Tuple{res, in.tb.Bool(found)}
			}
			return res
		}
		panic("lookup")
	}
	panic(fmt.Sprintf("eval %T %s", v, v))
}

// boundedIndex concretizes idx and checks bounds.
func (in *Interp) boundedIndex(idx *Term, n int) int {
	if idx.IsConst() {
		i := int(int64(idx.val))
		if i < 0 || i >= n {
			in.goPanicStr(fmt.Sprintf("index out of range [%d] with length %d", i, n))
		}
		return i
	}
	inb := in.tb.And(in.tb.Cmp("bvsle", in.tb.Const(64, 0), idx), in.tb.Cmp("bvslt", idx, in.tb.Const(64, uint64(n))))
	if !in.ex.branch(inb) {
		in.goPanicStr(fmt.Sprintf("index out of range [symbolic] with length %d", n))
	}
	return int(int64(in.ex.concretize(idx)))
}

func (in *Interp) convert(v Value, from, to types.Type) Value {
	fb, fok := from.Underlying().(*types.Basic)
	tb, tok := to.Underlying().(*types.Basic)
	if fok && tok && fb.Info()&types.IsInteger != 0 && tb.Info()&types.IsInteger != 0 {
		_, fs := widthOf(from)
		tw, _ := widthOf(to)
		return in.tb.Resize(v.(*Term), tw, fs)
	}
	if fok && tok && fb.Info()&types.IsFloat != 0 && tb.Info()&types.IsFloat != 0 {
		return v
	}
	if fok && tok && fb.Info()&types.IsInteger != 0 && tb.Info()&types.IsFloat != 0 {
		t := v.(*Term)
		if t.IsConst() {
			_, fs := widthOf(from)
			if fs {
				return float64(sext(t.val, t.w))
			}
			return float64(t.val)
		}
		panic(abortPath{"unsupported: symbolic integer to float conversion"})
	}
	// pointer <-> unsafe.Pointer
	if _, ok := from.Underlying().(*types.Pointer); ok && tok && tb.Kind() == types.UnsafePointer {
		return v
	}
	if _, ok := to.Underlying().(*types.Pointer); ok && fok && fb.Kind() == types.UnsafePointer {
		return v
	}
	if fok && fb.Kind() == types.UnsafePointer && tok && tb.Kind() == types.Uintptr {
		if rp, isRaw := v.(RawPtr); isRaw {
			return rp.addr
		}
		p := v.(Ptr)
		if p.c == nil {
			return in.tb.Const(64, 0)
		}
		a, ok := in.addrOf[p]
		if !ok {
			in.shared.nextAdr += 0x100
			a = in.shared.nextAdr
			in.addrOf[p] = a
			in.ptrAt[a] = p
		}
		return in.tb.Const(64, a)
	}
	if fok && fb.Kind() == types.Uintptr && tok && tb.Kind() == types.UnsafePointer {
		t := v.(*Term)
		if !t.IsConst() {
			return RawPtr{t} // an address computed by the (simulated) environment, e.g. a mapped pointer
		}
		a := t.val
		if a == 0 {
			return Ptr{}
		}
		p, ok := in.ptrAt[a]
		if !ok {
			return RawPtr{t}
		}
		return p
	}
	panic("convert " + from.String() + " -> " + to.String())
}

func (in *Interp) binop(op token.Token, a, b Value, ta, tb types.Type) Value {
	switch x := a.(type) {
	case *Term:
		y := b.(*Term)
		if x.w == 0 { // bool
			switch op {
			case token.EQL:
				return in.tb.Or(in.tb.And(x, y), in.tb.And(in.tb.Not(x), in.tb.Not(y)))
			case token.NEQ:
				return in.tb.Or(in.tb.And(x, in.tb.Not(y)), in.tb.And(in.tb.Not(x), y))
			case token.AND:
				return in.tb.And(x, y)
			case token.OR:
				return in.tb.Or(x, y)
			}
			panic("bool binop " + op.String())
		}
		_, signed := widthOf(ta)
		switch op {
		case token.ADD:
			return in.tb.BV("bvadd", x, y)
		case token.SUB:
			return in.tb.BV("bvsub", x, y)
		case token.MUL:
			return in.tb.BV("bvmul", x, y)
		case token.AND:
			return in.tb.BV("bvand", x, y)
		case token.OR:
			return in.tb.BV("bvor", x, y)
		case token.XOR:
			return in.tb.BV("bvxor", x, y)
		case token.AND_NOT:
			return in.tb.BV("bvand", x, in.tb.BvNot(y))
		case token.QUO, token.REM:
			if in.ex.branch(in.tb.Cmp("=", y, in.tb.Const(y.w, 0))) {
				in.goPanicStr("integer divide by zero")
			}
			o := map[token.Token][2]string{token.QUO: {"bvudiv", "bvsdiv"}, token.REM: {"bvurem", "bvsrem"}}[op]
			if signed {
				return in.tb.BV(o[1], x, y)
			}
			return in.tb.BV(o[0], x, y)
		case token.SHL, token.SHR:
			_, ys := widthOf(tb)
			if ys {
				if in.ex.branch(in.tb.Cmp("bvslt", y, in.tb.Const(y.w, 0))) {
					in.goPanicStr("negative shift amount")
				}
			}
			yy := in.tb.Resize(y, 64, false)
			big := in.tb.Not(in.tb.Cmp("bvult", yy, in.tb.Const(64, uint64(x.w))))
			ysh := in.tb.Resize(yy, x.w, false)
			if x.w > 64 {
				panic("w")
			}
			if y.w < x.w {
				ysh = in.tb.Resize(y, x.w, false)
			}
			switch {
			case op == token.SHL:
				return in.tb.Ite(big, in.tb.Const(x.w, 0), in.tb.BV("bvshl", x, ysh))
			case signed:
				return in.tb.Ite(big, in.tb.BV("bvashr", x, in.tb.Const(x.w, uint64(x.w-1))), in.tb.BV("bvashr", x, ysh))
			default:
				return in.tb.Ite(big, in.tb.Const(x.w, 0), in.tb.BV("bvlshr", x, ysh))
			}
		case token.EQL:
			return in.tb.Cmp("=", x, y)
		case token.NEQ:
			return in.tb.Not(in.tb.Cmp("=", x, y))
		case token.LSS:
			if signed {
				return in.tb.Cmp("bvslt", x, y)
			}
			return in.tb.Cmp("bvult", x, y)
		case token.LEQ:
			if signed {
				return in.tb.Cmp("bvsle", x, y)
			}
			return in.tb.Cmp("bvule", x, y)
		case token.GTR:
			if signed {
				return in.tb.Cmp("bvslt", y, x)
			}
			return in.tb.Cmp("bvult", y, x)
		case token.GEQ:
			if signed {
				return in.tb.Cmp("bvsle", y, x)
			}
			return in.tb.Cmp("bvule", y, x)
		}
	case Ptr:
		if rp, isRaw := b.(RawPtr); isRaw {
			return in.binop(op, rp, x, tb, ta)
		}
		switch op {
		case token.EQL:
			return in.tb.Bool(x == b.(Ptr))
		case token.NEQ:
			return in.tb.Bool(x != b.(Ptr))
		}
	case Iface:
		y := b.(Iface)
		eq := false
		if x.t == nil || y.t == nil {
			eq = x.t == nil && y.t == nil
		} else if types.Identical(x.t, y.t) {
			eq = in.eqConcrete(x.v, y.v)
		}
		switch op {
		case token.EQL:
			return in.tb.Bool(eq)
		case token.NEQ:
			return in.tb.Bool(!eq)
		}
	case Slice:
		// only comparison with nil
		switch op {
		case token.EQL:
			return in.tb.Bool(x.c == nil)
		case token.NEQ:
			return in.tb.Bool(x.c != nil)
		}
	case Str:
		switch op {
		case token.EQL:
			return in.tb.Bool(x == b.(Str))
		case token.NEQ:
			return in.tb.Bool(x != b.(Str))
		case token.ADD:
			return x + b.(Str)
		}
	case float64:
		y := b.(float64)
		switch op {
		case token.LSS:
			return in.tb.Bool(x < y)
		case token.GTR:
			return in.tb.Bool(x > y)
		case token.LEQ:
			return in.tb.Bool(x <= y)
		case token.GEQ:
			return in.tb.Bool(x >= y)
		case token.EQL:
			return in.tb.Bool(x == y)
		case token.NEQ:
			return in.tb.Bool(x != y)
		case token.ADD:
			return x + y
		case token.SUB:
			return x - y
		case token.MUL:
			return x * y
		case token.QUO:
			return x / y
		}
	case RawPtr:
		var other *Term
		switch y := b.(type) {
		case RawPtr:
			other = y.addr
		case Ptr:
			if y.c != nil {
				switch op {
				case token.EQL:
					return in.tb.Bool(false)
				case token.NEQ:
					return in.tb.Bool(true)
				}
			}
			other = in.tb.Const(64, 0)
		}
		if other != nil {
			switch op {
			case token.EQL:
				return in.tb.Cmp("=", x.addr, other)
			case token.NEQ:
				return in.tb.Not(in.tb.Cmp("=", x.addr, other))
			}
		}
	case nil:
		switch op {
		case token.EQL:
			return in.tb.Bool(b == nil)
		case token.NEQ:
			return in.tb.Bool(b != nil)
		}
	case *Closure, *ssa.Function:
		switch op {
		case token.EQL:
			return in.tb.Bool(b == nil && a == nil)
		case token.NEQ:
			return in.tb.Bool(!(b == nil && a == nil))
		}
	}
	panic(fmt.Sprintf("binop %s %T", op, a))
}
