package main

import (
	"crypto/sha256"
	"encoding/json"
	"fmt"
	"os"
	"path/filepath"
	"runtime/debug"
	"sort"
	"strings"
	"sync"
	"time"

	"golang.org/x/tools/go/packages"
	"golang.org/x/tools/go/ssa"
	"golang.org/x/tools/go/ssa/ssautil"
)

// JobSpec is one harness entry of a check (checks.json).
type JobSpec struct {
	Module       string `json:"module"` // "memutils" or "vam"
	Pkg          string `json:"pkg"`    // package dir relative to the module, e.g. "metadata"
	Entry        string `json:"entry"`
	CfgsQuick    []int  `json:"cfgs_quick"`
	CfgsThorough []int  `json:"cfgs_thorough"` // thorough tier: run with the history depth of the quick tier
	CfgsDeep     []int  `json:"cfgs_deep"`     // thorough tier: run with the deeper histories (verifTier() == 1)
	Budget       int    `json:"step_budget,omitempty"`
}

type CheckSpec struct {
	Level          string    `json:"level"`
	Jobs           []JobSpec `json:"jobs"`
	BoundsQuick    string    `json:"bounds_quick"`
	BoundsThorough string    `json:"bounds_thorough"`
	Assumptions    []string  `json:"assumptions"`
	Outside        string    `json:"outside"`
	MustReach      []string  `json:"must_reach,omitempty"`
}

type Env struct {
	Repo     string
	Verif    string
	Build    string
	Workers  int
	Timeout  time.Duration
	Samples  int
	Verbose  bool
	SolverMs int
}

type Loaded struct {
	prog    *ssa.Program
	pkgs    map[string]*ssa.Package // key: module/pkg
	targets map[*ssa.Package]bool
	overlay map[string]string // virtual path -> real path (for go test -overlay)
	files   map[string]string // source file -> sha256
	loadDur time.Duration
}

func goEnv(env *Env, module string) []string {
	var e []string
	for _, kv := range os.Environ() {
		if strings.HasPrefix(kv, "GOFLAGS=") || strings.HasPrefix(kv, "CGO_LDFLAGS=") {
			continue
		}
		e = append(e, kv)
	}
	if module == "vam" {
		e = append(e, "GOFLAGS=-mod=mod -modfile="+filepath.Join(env.Build, "vam_alt.mod"))
		e = append(e, "CGO_LDFLAGS=-L"+env.Build+" -Wl,-rpath,"+env.Build)
	} else {
		e = append(e, "GOFLAGS=-mod=mod")
	}
	return e
}

// prepareVamModfile writes a copy of vam/go.mod that resolves memutils to /repo/memutils.
func prepareVamModfile(env *Env) error {
	src, err := os.ReadFile(filepath.Join(env.Repo, "vam", "go.mod"))
	if err != nil {
		return err
	}
	alt := string(src) + "\nreplace github.com/vkngwrapper/arsenal/memutils => " + filepath.Join(env.Repo, "memutils") + "\n"
	if err := os.WriteFile(filepath.Join(env.Build, "vam_alt.mod"), []byte(alt), 0o644); err != nil {
		return err
	}
	sum, err := os.ReadFile(filepath.Join(env.Repo, "vam", "go.sum"))
	if err != nil {
		return err
	}
	msum, _ := os.ReadFile(filepath.Join(env.Repo, "memutils", "go.sum"))
	return os.WriteFile(filepath.Join(env.Build, "vam_alt.sum"), append(sum, msum...), 0o644)
}

// harnessOverlay collects the harness files for module/pkg: virtual path in the repo -> real file.
func harnessOverlay(env *Env, module, pkg string) (map[string]string, string, error) {
	dir := filepath.Join(env.Verif, "harness", module, pkg)
	ents, err := os.ReadDir(dir)
	if err != nil {
		return nil, "", err
	}
	ov := map[string]string{}
	pkgName := ""
	for _, e := range ents {
		if !strings.HasSuffix(e.Name(), ".go") {
			continue
		}
		real := filepath.Join(dir, e.Name())
		if pkgName == "" {
			b, _ := os.ReadFile(real)
			for _, l := range strings.Split(string(b), "\n") {
				if strings.HasPrefix(l, "package ") {
					pkgName = strings.TrimSpace(strings.TrimPrefix(l, "package "))
					break
				}
			}
		}
		ov[filepath.Join(env.Repo, module, pkg, "zz_verif_"+e.Name())] = real
	}
	if pkgName == "" {
		return nil, "", fmt.Errorf("no harness files in %s", dir)
	}
	// shared native support + replay test, generated with the right package clause
	gen := filepath.Join(env.Build, "gen", sanitize(env.Repo), module, pkg)
	os.MkdirAll(gen, 0o755)
	for _, f := range []struct{ tmpl, out, virt string }{
		{"support.go.tmpl", "support.go", "zz_verif_support.go"},
		{"replay_test.go.tmpl", "replay_test.go", "zz_verif_replay_test.go"},
	} {
		b, err := os.ReadFile(filepath.Join(env.Verif, "harness", f.tmpl))
		if err != nil {
			return nil, "", err
		}
		out := filepath.Join(gen, f.out)
		if err := os.WriteFile(out, []byte(strings.ReplaceAll(string(b), "PKGNAME", pkgName)), 0o644); err != nil {
			return nil, "", err
		}
		ov[filepath.Join(env.Repo, module, pkg, f.virt)] = out
	}
	return ov, pkgName, nil
}

func loadTargets(env *Env, specs []JobSpec) (*Loaded, error) {
	t0 := time.Now()
	type key struct{ module, pkg string }
	seen := map[key]bool{}
	byModule := map[string][]string{}
	ld := &Loaded{pkgs: map[string]*ssa.Package{}, targets: map[*ssa.Package]bool{}, overlay: map[string]string{}, files: map[string]string{}}
	for _, s := range specs {
		k := key{s.Module, s.Pkg}
		if seen[k] {
			continue
		}
		seen[k] = true
		byModule[s.Module] = append(byModule[s.Module], s.Pkg)
	}
	if len(byModule) != 1 {
		return nil, fmt.Errorf("a check must stay within one module (got %d)", len(byModule))
	}
	for module, pkgList := range byModule {
		if module == "vam" {
			if err := prepareVamModfile(env); err != nil {
				return nil, err
			}
		}
		overlayBytes := map[string][]byte{}
		var patterns []string
		for _, p := range pkgList {
			ov, _, err := harnessOverlay(env, module, p)
			if err != nil {
				return nil, err
			}
			for v, r := range ov {
				ld.overlay[v] = r
				if strings.HasSuffix(v, "_test.go") {
					continue
				}
				b, err := os.ReadFile(r)
				if err != nil {
					return nil, err
				}
				overlayBytes[v] = b
			}
			patterns = append(patterns, "./"+p)
		}
		cfg := &packages.Config{Mode: packages.LoadAllSyntax, Dir: filepath.Join(env.Repo, module), Overlay: overlayBytes,
			Env: goEnv(env, module), BuildFlags: []string{"-tags=verif_harness"}}
		pkgs, err := packages.Load(cfg, patterns...)
		if err != nil {
			return nil, err
		}
		if n := packages.PrintErrors(pkgs); n > 0 {
			return nil, fmt.Errorf("%d package errors while loading %v", n, patterns)
		}
		prog, spkgs := ssautil.AllPackages(pkgs, ssa.InstantiateGenerics)
		prog.Build()
		ld.prog = prog
		for i, sp := range spkgs {
			if sp == nil {
				return nil, fmt.Errorf("no SSA for %s", pkgs[i].PkgPath)
			}
			rel := strings.TrimPrefix(pkgs[i].PkgPath, "github.com/vkngwrapper/arsenal/"+module+"/")
			if pkgs[i].PkgPath == "github.com/vkngwrapper/arsenal/"+module {
				rel = "."
			}
			ld.pkgs[module+"/"+rel] = sp
			ld.targets[sp] = true
		}
		// every package of the repository that was loaded counts as code under test
		for _, sp := range prog.AllPackages() {
			if strings.HasPrefix(sp.Pkg.Path(), "github.com/vkngwrapper/arsenal/") {
				ld.targets[sp] = true
			}
		}
	}
	ld.loadDur = time.Since(t0)
	return ld, nil
}

func fileHash(path string) string {
	b, err := os.ReadFile(path)
	if err != nil {
		return "unreadable"
	}
	return fmt.Sprintf("%x", sha256.Sum256(b))[:16]
}

type RunResult struct {
	jobs      []*Job
	wall      time.Duration
	queries   int
	sat       int
	unsat     int
	unknown   int
	solverDur time.Duration
	slowest   time.Duration
	funcs     map[string]string
	samples   []querySample
	solverErr []string
	timedOut  bool
	coreHits  int
	fallbacks int
	ivalSkips int
	siteStats map[string]*[3]int
	crashed   []string
}

func runJobs(env *Env, ld *Loaded, jobs []*Job, specs map[string]JobSpec) *RunResult {
	q := NewWorkQueue()
	for _, j := range jobs {
		j.res = newJobResult()
		q.Push(WorkItem{j, nil, nil})
	}
	rr := &RunResult{jobs: jobs, funcs: map[string]string{}, siteStats: map[string]*[3]int{}}
	var mu sync.Mutex
	var wg sync.WaitGroup
	t0 := time.Now()
	deadline := t0.Add(env.Timeout)
	for w := 0; w < env.Workers; w++ {
		wg.Add(1)
		go func(w int) {
			defer wg.Done()
			tb := NewTB()
			s := NewSolver(primarySolver(), env.SolverMs)
			s.logic = "QF_BV"
			s.sampleEvery = 97
			defer s.Close()
			ex := &Explorer{tb: tb, s: s, q: q}
			if os.Getenv("VERIF_STATS") != "" {
				ex.stats = map[string]*[3]int{}
				defer func() {
					mu.Lock()
					for k, v := range ex.stats {
						if rr.siteStats[k] == nil {
							rr.siteStats[k] = &[3]int{}
						}
						for i := range v {
							rr.siteStats[k][i] += v[i]
						}
					}
					mu.Unlock()
				}()
			}
			funcs := map[string]string{}
			npaths := 0
			for {
				it, ok := q.Pop()
				if !ok {
					break
				}
				if time.Now().After(deadline) {
					mu.Lock()
					rr.timedOut = true
					mu.Unlock()
					q.Done()
					q.Stop()
					break
				}
				npaths++
				if tb.cnt > 2_000_000 { // bound memory: terms never outlive a path
					tb = NewTB()
					ex.tb = tb
					s.coreCache = map[int][][]int{} // term ids start over
				}
				spec := specs[it.job.Entry]
				budget := spec.Budget
				if budget == 0 {
					budget = 3_000_000
				}
				runPath(env, ld, ex, it, funcs, budget, &mu, rr)
				q.Done()
			}
			mu.Lock()
			rr.queries += s.queries
			rr.sat += s.nsat
			rr.unsat += s.nunsat
			rr.unknown += s.nunknown
			rr.solverDur += s.dur
			if s.slowest > rr.slowest {
				rr.slowest = s.slowest
			}
			for f, file := range funcs {
				rr.funcs[f] = file
			}
			if len(rr.samples) < 400 {
				rr.samples = append(rr.samples, s.samples...)
			}
			rr.solverErr = append(rr.solverErr, s.errs...)
			rr.coreHits += s.coreHits
			rr.fallbacks += s.nfallback
			rr.ivalSkips += ex.skipped
			mu.Unlock()
		}(w)
	}
	// progress
	done := make(chan struct{})
	go func() {
		tick := time.NewTicker(10 * time.Second)
		defer tick.Stop()
		for {
			select {
			case <-done:
				return
			case <-tick.C:
				if env.Verbose {
					n := 0
					for _, j := range jobs {
						j.res.mu.Lock()
						n += j.res.paths
						j.res.mu.Unlock()
					}
					fmt.Fprintf(os.Stderr, "... %.0fs paths=%d queue=%d\n", time.Since(t0).Seconds(), n, q.Len())
				}
			}
		}
	}()
	wg.Wait()
	close(done)
	rr.wall = time.Since(t0)
	return rr
}

func runPath(env *Env, ld *Loaded, ex *Explorer, it WorkItem, funcs map[string]string, budget int, mu *sync.Mutex, rr *RunResult) {
	ex.startPath(it)
	spec := it.job
	parts := strings.SplitN(spec.Entry, ":", 2)
	_ = parts
	var fn *ssa.Function
	for _, sp := range ld.pkgs {
		if f := sp.Func(spec.Entry); f != nil {
			fn = f
			break
		}
	}
	if fn == nil {
		panic("no entry function " + spec.Entry)
	}
	in := NewInterp(ld.prog, ex.tb, ex, ld.targets, funcs, budget)
	in.tier = spec.Tier
	outcome, msg := "end", ""
	func() {
		defer func() {
			if r := recover(); r != nil {
				switch x := r.(type) {
				case abortPath:
					outcome, msg = "abort", x.why
					if x.why == "step budget" || strings.HasPrefix(x.why, "unsupported") || strings.HasPrefix(x.why, "no body") {
						ex.inconclusive(x.why)
					}
				case goPanic:
					outcome, msg = "panic", panicMessage(x)
				default:
					mu.Lock()
					if len(rr.crashed) < 5 {
						rr.crashed = append(rr.crashed, fmt.Sprintf("%v\n%s", r, debug.Stack()))
					}
					mu.Unlock()
					outcome, msg = "abort", fmt.Sprintf("engine error: %v", r)
					ex.inconclusive(msg)
				}
			}
		}()
		defer func() {
			if in.sched != nil {
				in.sched.kill() // release the host goroutines of the interpreted goroutines of this path
			}
		}()
		in.initPackages(fn.Pkg)
		in.call(fn, []Value{ex.tb.Const(64, uint64(spec.Cfg))})
	}()
	// assertions still pending at the end of the path (or at the panic) are decided now
	func() {
		defer func() {
			if r := recover(); r != nil {
				if x, ok := r.(abortPath); ok {
					outcome, msg = "abort", x.why
					return
				}
				panic(r)
			}
		}()
		ex.flush()
	}()
	ex.finishPath(outcome, msg, env.Samples)
}

// ---------------------------------------------------------------------------------------------
// evidence

type Evidence struct {
	PropertyID  string         `json:"property_id"`
	Tier        string         `json:"tier"`
	Seed        int            `json:"seed"`
	Level       string         `json:"level"`
	Coverage    map[string]any `json:"coverage"`
	Assumptions []string       `json:"assumptions"`
	WallS       float64        `json:"wall_s"`
	Violations  int            `json:"violations"`
}

func writeJSON(path string, v any) error {
	b, err := json.MarshalIndent(v, "", " ")
	if err != nil {
		return err
	}
	os.MkdirAll(filepath.Dir(path), 0o755)
	return os.WriteFile(path, b, 0o644)
}

func sourceFilesOf(funcs map[string]string) map[string]string {
	files := map[string]string{}
	for _, f := range funcs {
		if f != "" && strings.Contains(f, "/") && !strings.Contains(f, "/harness/") && !strings.Contains(f, "/build/gen/") && !strings.Contains(f, "zz_verif_") {
			files[f] = ""
		}
	}
	for f := range files {
		files[f] = fileHash(f)
	}
	return files
}

func sortedFuncs(m map[string]string, onlyRepo bool) []string {
	var l []string
	for f := range m {
		if onlyRepo && !strings.Contains(f, "vkngwrapper/arsenal") {
			continue
		}
		l = append(l, f)
	}
	sort.Strings(l)
	return l
}

// primarySolver: z3 4.8.12 decides the queries (measured marginally faster than 5.1.0 under 16-way parallelism);
// z3 5.1.0 (z3-new) and cvc5 re-decide a sample of them (solver diff).
func primarySolver() []string {
	if os.Getenv("VERIF_SOLVER") == "z3-new" {
		return []string{"z3-new", "-in", "-smt2"}
	}
	return []string{"/usr/bin/z3", "-in", "-smt2"}
}
