package main

import (
	"fmt"
	"go/token"

	"golang.org/x/tools/go/ssa"
)

// Two-or-more-goroutine mode (used only by harnesses that call verifGo): interpreted goroutines run one at a time,
// each in its own host goroutine with explicit hand-off. Scheduling points are mutex operations, atomic operations,
// sync.Pool operations, goroutine start and end; at each point the scheduler's choice is one more DFS decision
// (bounded number of pre-emptions). A vector-clock happens-before monitor over heap slots reports data races;
// "every goroutine blocked" reports a deadlock. Data may still be symbolic.

const maxThreads = 4

type vclock [maxThreads]int

func (a *vclock) join(b *vclock) {
	for i := range a {
		if b[i] > a[i] {
			a[i] = b[i]
		}
	}
}

type threadKill struct{}

type thread struct {
	id      int
	in      *Interp
	vc      vclock
	done    bool
	blocked *Cont // mutex container the thread waits for (nil = runnable)
	resume  chan struct{}
	fn      Value
}

type accessRec struct {
	wT    int
	wC    int
	wPos  token.Pos
	reads [maxThreads]int
	rPos  [maxThreads]token.Pos
}

type Sched struct {
	ex          *Explorer
	prog        *ssa.Program
	threads     []*thread
	cur         *thread
	access      map[Ptr]*accessRec
	syncVC      map[*Cont]*vclock // mutexes, atomics, pools
	preemptions int
	bound       int
	killed      bool
	abort       interface{} // abortPath / engine panic raised in a child thread, re-raised in the main thread
	races       []string
	childPanic  []string
	deadlock    bool
	mainWaiting bool
}

func newSched(in *Interp) *Sched {
	s := &Sched{ex: in.ex, prog: in.prog, access: map[Ptr]*accessRec{}, syncVC: map[*Cont]*vclock{}, bound: 2}
	t0 := &thread{id: 0, in: in, resume: make(chan struct{}, 1)}
	t0.vc[0] = 1
	s.threads = []*thread{t0}
	s.cur = t0
	in.thread = t0
	return s
}

func (s *Sched) runnable(t *thread) bool {
	if t.done || t.blocked != nil {
		return false
	}
	if t.id == 0 && s.mainWaiting {
		for _, o := range s.threads[1:] {
			if !o.done {
				return false
			}
		}
	}
	return true
}

// spawn creates an interpreted goroutine; it starts running at some later scheduling point.
func (s *Sched) spawn(parent *Interp, fn Value) {
	if len(s.threads) >= maxThreads {
		panic(abortPath{"unsupported: more than 3 spawned goroutines"})
	}
	child := *parent // shares heap, globals, explorer; own depth/steps bookkeeping
	child.depth = 0
	t := &thread{id: len(s.threads), in: &child, resume: make(chan struct{}, 1), fn: fn}
	child.thread = t
	t.vc = parent.thread.vc // fork edge
	t.vc[t.id] = 1
	parent.thread.vc[parent.thread.id]++
	s.threads = append(s.threads, t)
	go s.threadMain(t)
	s.point(parent.thread)
}

func (s *Sched) threadMain(t *thread) {
	<-t.resume
	defer func() {
		if r := recover(); r != nil {
			switch x := r.(type) {
			case threadKill:
			case goPanic:
				s.childPanic = append(s.childPanic, panicMessage(x))
			default:
				s.abort = r
				s.killed = true
			}
		}
		t.done = true
		t.in.thread.vc[t.id]++
		// hand the baton on (or back to the main thread)
		s.switchFrom(t, true)
	}()
	if s.killed {
		panic(threadKill{})
	}
	t.in.callValue(t.fn, nil)
}

// switchFrom picks the next thread to run at a scheduling point reached by t. final: t will not run again.
func (s *Sched) switchFrom(t *thread, final bool) {
	if s.killed {
		if final {
			s.wake(s.threads[0])
			return
		}
		panic(threadKill{})
	}
	var opts []*thread
	selfOK := !final && s.runnable(t)
	for _, o := range s.threads {
		if o != t && s.runnable(o) {
			opts = append(opts, o)
		}
	}
	if selfOK {
		if s.preemptions >= s.bound {
			return // no more pre-emptions: keep running
		}
		opts = append([]*thread{t}, opts...)
	}
	if len(opts) == 0 {
		if final {
			// nothing else can run: give control back to the main thread if it is joining, else deadlock
			allDone := true
			for _, o := range s.threads[1:] {
				if !o.done {
					allDone = false
				}
			}
			if allDone {
				s.wake(s.threads[0])
				return
			}
		}
		s.deadlock = true
		s.killed = true
		if t.id == 0 && !final {
			s.reportDeadlock()
		}
		s.wake(s.threads[0])
		if !final {
			panic(threadKill{})
		}
		return
	}
	k := 0
	if len(opts) > 1 {
		k = s.ex.choice1(len(opts))
	}
	next := opts[k]
	if next == t {
		return
	}
	if selfOK {
		s.preemptions++
	}
	s.cur = next
	s.wake(next)
	if final {
		return
	}
	<-t.resume
	if s.killed && t.id != 0 {
		panic(threadKill{})
	}
	if s.abort != nil && t.id == 0 {
		a := s.abort
		s.abort = nil
		panic(a)
	}
	if s.deadlock && t.id == 0 {
		s.reportDeadlock()
	}
}

// reportDeadlock (main goroutine only): every goroutine is blocked. Recorded as a violation of C12.
func (s *Sched) reportDeadlock() {
	s.ex.assert("C12/no-deadlock", s.ex.tb.Bool(false))
	panic(abortPath{"deadlock"})
}

func (s *Sched) wake(t *thread) {
	select {
	case t.resume <- struct{}{}:
	default:
	}
}

// point is an ordinary scheduling point.
func (s *Sched) point(t *thread) { s.switchFrom(t, false) }

// join: the main thread waits for all spawned goroutines.
func (s *Sched) join(t *thread) {
	if t.id != 0 {
		panic(abortPath{"unsupported: verifJoin outside the main goroutine"})
	}
	for {
		all := true
		for _, o := range s.threads[1:] {
			if !o.done {
				all = false
			}
		}
		if all {
			break
		}
		s.mainWaiting = true
		s.switchFrom(t, false)
		s.mainWaiting = false
	}
	for _, o := range s.threads[1:] {
		t.vc.join(&o.vc)
	}
}

// kill releases every host goroutine of this path (called when the path ends for whatever reason).
func (s *Sched) kill() {
	s.killed = true
	for _, t := range s.threads[1:] {
		if !t.done {
			s.wake(t)
		}
	}
}

// ---- synchronisation edges -----------------------------------------------------------------------

func (s *Sched) vcOf(c *Cont) *vclock {
	v := s.syncVC[c]
	if v == nil {
		v = &vclock{}
		s.syncVC[c] = v
	}
	return v
}

func (s *Sched) acquire(t *thread, c *Cont) { t.vc.join(s.vcOf(c)) }
func (s *Sched) release(t *thread, c *Cont) {
	v := s.vcOf(c)
	v.join(&t.vc)
	t.vc[t.id]++
}

// ---- race monitor --------------------------------------------------------------------------------

func (s *Sched) onAccess(t *thread, p Ptr, write bool, pos token.Pos) {
	if len(s.threads) < 2 || p.c == nil {
		return
	}
	a := s.access[p]
	if a == nil {
		a = &accessRec{wT: -1}
		s.access[p] = a
	}
	race := func(otherPos token.Pos, what string) {
		if len(s.races) < 8 {
			s.races = append(s.races, fmt.Sprintf("%s at %s vs %s", what, s.prog.Fset.Position(pos), s.prog.Fset.Position(otherPos)))
		}
	}
	if a.wT >= 0 && a.wT != t.id && a.wC > t.vc[a.wT] {
		if write {
			race(a.wPos, "write/write")
		} else {
			race(a.wPos, "read/write")
		}
	}
	if write {
		for r := range a.reads {
			if r != t.id && a.reads[r] > t.vc[r] {
				race(a.rPos[r], "write/read")
			}
		}
		a.wT, a.wC, a.wPos = t.id, t.vc[t.id], pos
		a.reads = [maxThreads]int{}
	} else {
		a.reads[t.id] = t.vc[t.id]
		a.rPos[t.id] = pos
	}
}
