package main

import (
	"fmt"
	"go/types"
	"os"
	"time"

	"golang.org/x/tools/go/packages"
	"golang.org/x/tools/go/ssa"
	"golang.org/x/tools/go/ssa/ssautil"
)

func main() {
	dir := os.Args[1]
	harnessFile := os.Args[2]
	entry := os.Args[3]
	t0 := time.Now()
	src, err := os.ReadFile(harnessFile)
	if err != nil {
		panic(err)
	}
	cfg := &packages.Config{Mode: packages.LoadAllSyntax, Dir: dir, Overlay: map[string][]byte{dir + "/zz_verif_spike.go": src},
		Env: append(os.Environ(), "GOFLAGS=-mod=mod")}
	pkgs, err := packages.Load(cfg, ".")
	if err != nil {
		panic(err)
	}
	if packages.PrintErrors(pkgs) > 0 {
		os.Exit(2)
	}
	prog, spkgs := ssautil.AllPackages(pkgs, ssa.InstantiateGenerics)
	prog.Build()
	pkg := spkgs[0]
	fmt.Println("loaded", time.Since(t0))
	errType = types.Universe.Lookup("error").Type()
	fn := pkg.Func(entry)
	if fn == nil {
		panic("no entry " + entry)
	}
	ex := &Explorer{s: NewSolver(), reach: map[string]int{}, viols: map[string]*Violation{}, aborted: map[string]int{}, panics: map[string]int{}}
	ex.work = [][]int64{{}}
	funcs := map[string]bool{}
	t1 := time.Now()
	for len(ex.work) > 0 {
		p := ex.work[len(ex.work)-1]
		ex.work = ex.work[:len(ex.work)-1]
		ex.prefix, ex.pos, ex.cur = p, 0, nil
		ex.paths++
		in := &Interp{prog: prog, ex: ex, globals: map[*ssa.Global]*Cont{}, addrOf: map[Ptr]uint64{}, ptrAt: map[uint64]Ptr{}, nextAdr: 0xc000000000, funcs: funcs, pkg: pkg}
		ex.s.Reset()
		ex.s.Push()
		func() {
			defer func() {
				if r := recover(); r != nil {
					switch x := r.(type) {
					case abortPath:
						ex.aborted[x.why]++
					case goPanic:
						msg := "?"
						if i, ok := x.v.(Iface); ok {
							if s, ok := i.v.(Str); ok {
								msg = string(s)
							}
						}
						ex.panics[msg]++
					default:
						panic(r)
					}
				}
			}()
			in.call(fn, nil)
		}()
		ex.s.Pop()
		if ex.paths%50 == 0 {
			fmt.Printf("... paths=%d work=%d queries=%d %.1fs\n", ex.paths, len(ex.work), ex.s.queries, time.Since(t1).Seconds())
		}
	}
	fmt.Printf("explore wall=%.2fs funcs=%d\n", time.Since(t1).Seconds(), len(funcs))
	ex.report()
}
