package main

import (
	"encoding/json"
	"flag"
	"fmt"
	"os"
	"os/exec"
	"path/filepath"
	"runtime/pprof"
	"sort"
	"strconv"
	"strings"
	"time"
)

func usage() {
	fmt.Fprintln(os.Stderr, `usage:
  symgo check  -id C01 -tier quick|thorough [-v]
  symgo run    -module memutils -pkg metadata -entry Verif_X -cfgs 0,1 [-tier quick] [-v]   (development)
  symgo replay -file replays/x.json`)
	os.Exit(2)
}

func defaultEnv() *Env {
	verif := os.Getenv("VERIF_DIR")
	if verif == "" {
		verif = "/verif"
	}
	repo := os.Getenv("VERIF_REPO")
	if repo == "" {
		repo = "/repo"
	}
	env := &Env{Repo: repo, Verif: verif, Build: filepath.Join(verif, "build"), Workers: 16, Timeout: 30 * time.Minute, Samples: 6, SolverMs: 20000}
	if w := os.Getenv("VERIF_WORKERS"); w != "" {
		env.Workers, _ = strconv.Atoi(w)
	}
	os.MkdirAll(env.Build, 0o755)
	return env
}

func main() {
	if len(os.Args) < 2 {
		usage()
	}
	os.Setenv("PATH", "/opt/veriftools/go1.26.8/bin:"+os.Getenv("PATH"))
	for _, kv := range []string{"GOPROXY=off", "GOSUMDB=off", "GOTOOLCHAIN=local", "GOWORK=off"} {
		p := strings.SplitN(kv, "=", 2)
		os.Setenv(p[0], p[1])
	}
	if pf := os.Getenv("VERIF_PROF"); pf != "" {
		f, _ := os.Create(pf)
		pprof.StartCPUProfile(f)
		defer pprof.StopCPUProfile()
	}
	env := defaultEnv()
	code := mainCmd(env)
	pprof.StopCPUProfile()
	os.Exit(code)
}

func mainCmd(env *Env) int {
	switch os.Args[1] {
	case "check":
		fs := flag.NewFlagSet("check", flag.ExitOnError)
		id := fs.String("id", "", "property id")
		tier := fs.String("tier", "quick", "quick|thorough")
		v := fs.Bool("v", false, "verbose")
		fs.Parse(os.Args[2:])
		env.Verbose = *v
		return cmdCheck(env, *id, *tier)
	case "run":
		fs := flag.NewFlagSet("run", flag.ExitOnError)
		module := fs.String("module", "memutils", "")
		pkg := fs.String("pkg", "metadata", "")
		entry := fs.String("entry", "", "")
		cfgs := fs.String("cfgs", "0", "")
		tier := fs.String("tier", "quick", "")
		noreplay := fs.Bool("noreplay", false, "skip native replays")
		v := fs.Bool("v", true, "")
		fs.Parse(os.Args[2:])
		env.Verbose = *v
		var cl []int
		for _, c := range strings.Split(*cfgs, ",") {
			if strings.Contains(c, "-") {
				p := strings.SplitN(c, "-", 2)
				a, _ := strconv.Atoi(p[0])
				b, _ := strconv.Atoi(p[1])
				for i := a; i <= b; i++ {
					cl = append(cl, i)
				}
			} else {
				n, _ := strconv.Atoi(c)
				cl = append(cl, n)
			}
		}
		var specs []JobSpec
		for _, e := range strings.Split(*entry, ",") {
			specs = append(specs, JobSpec{Module: *module, Pkg: *pkg, Entry: e, CfgsQuick: cl, CfgsDeep: cl}) // -tier thorough = deeper histories
		}
		spec := &CheckSpec{Level: "model_checking", Jobs: specs}
		return runCheck(env, "DEV", *tier, spec, !*noreplay)
	case "replay":
		fs := flag.NewFlagSet("replay", flag.ExitOnError)
		file := fs.String("file", "", "")
		fs.Parse(os.Args[2:])
		return cmdReplay(env, *file)
	default:
		usage()
	}
	return 2
}

func loadSpecs(env *Env) (map[string]*CheckSpec, error) {
	b, err := os.ReadFile(filepath.Join(env.Verif, "checks.json"))
	if err != nil {
		return nil, err
	}
	m := map[string]*CheckSpec{}
	if err := json.Unmarshal(b, &m); err != nil {
		return nil, err
	}
	return m, nil
}

func cmdCheck(env *Env, id, tier string) int {
	specs, err := loadSpecs(env)
	if err != nil {
		fmt.Println("cannot read checks.json:", err)
		return 2
	}
	spec := specs[id]
	if spec == nil {
		fmt.Println("no check registered for", id)
		return 2
	}
	return runCheck(env, id, tier, spec, true)
}

type finding struct {
	kind, property, entry, label, text string
}

func loadFindings(env *Env) []finding {
	b, err := os.ReadFile(filepath.Join(env.Verif, "known_findings.txt"))
	if err != nil {
		return nil
	}
	var out []finding
	for _, l := range strings.Split(string(b), "\n") {
		l = strings.TrimSpace(l)
		if l == "" || strings.HasPrefix(l, "#") {
			continue
		}
		var f finding
		switch {
		case strings.HasPrefix(l, "finding:"):
			f.kind = "finding"
			l = strings.TrimSpace(strings.TrimPrefix(l, "finding:"))
		case strings.HasPrefix(l, "fixed:"):
			f.kind = "fixed"
			l = strings.TrimSpace(strings.TrimPrefix(l, "fixed:"))
		default:
			continue
		}
		for _, tok := range strings.Fields(l) {
			switch {
			case strings.HasPrefix(tok, "property="):
				f.property = strings.TrimPrefix(tok, "property=")
			case strings.HasPrefix(tok, "entry="):
				f.entry = strings.TrimPrefix(tok, "entry=")
			case strings.HasPrefix(tok, "label="):
				f.label = strings.TrimPrefix(tok, "label=")
			}
		}
		f.text = l
		out = append(out, f)
	}
	return out
}

func runCheck(env *Env, id, tier string, spec *CheckSpec, doReplay bool) int {
	t0 := time.Now()
	seed, _ := strconv.Atoi(os.Getenv("VERIF_SEED"))
	tierN := 0
	if tier == "thorough" {
		tierN = 1
		env.Samples = 24
		env.Timeout = 4 * time.Hour
	}
	if t := os.Getenv("VERIF_TIMEOUT_S"); t != "" {
		n, _ := strconv.Atoi(t)
		env.Timeout = time.Duration(n) * time.Second
	}
	evDir := filepath.Join(env.Verif, "evidence")
	if d := os.Getenv("VERIF_EVIDENCE_DIR"); d != "" {
		evDir = d // used when the checks are pointed at a scratch copy with a seeded change
	}
	evPath := filepath.Join(evDir, id+".json")
	os.Remove(evPath)

	// jobs are grouped per module (memutils / vam are separate Go modules and are loaded separately)
	var jobs []*Job
	specByEntry := map[string]JobSpec{}
	var moduleOrder []string
	byModule := map[string][]JobSpec{}
	for _, js := range spec.Jobs {
		specByEntry[js.Entry] = js
		if _, ok := byModule[js.Module]; !ok {
			moduleOrder = append(moduleOrder, js.Module)
		}
		byModule[js.Module] = append(byModule[js.Module], js)
	}
	rr := &RunResult{funcs: map[string]string{}, siteStats: map[string]*[3]int{}}
	ld := &Loaded{overlay: map[string]string{}}
	for _, mod := range moduleOrder {
		mld, err := loadTargets(env, byModule[mod])
		if err != nil {
			fmt.Println("INCONCLUSIVE: cannot load code under test:", err)
			return 2
		}
		if env.Verbose {
			fmt.Fprintf(os.Stderr, "loaded %s in %.1fs\n", mod, mld.loadDur.Seconds())
		}
		var mjobs []*Job
		for _, js := range byModule[mod] {
			if tierN == 1 && len(js.CfgsThorough)+len(js.CfgsDeep) > 0 {
				// thorough: more configurations at the quick tier's history depth, plus the configurations for which the
				// deeper histories are affordable
				for _, c := range js.CfgsThorough {
					mjobs = append(mjobs, &Job{Entry: js.Entry, Cfg: c, Tier: 0, Prop: id})
				}
				for _, c := range js.CfgsDeep {
					mjobs = append(mjobs, &Job{Entry: js.Entry, Cfg: c, Tier: 1, Prop: id})
				}
			} else {
				for _, c := range js.CfgsQuick {
					mjobs = append(mjobs, &Job{Entry: js.Entry, Cfg: c, Tier: tierN, Prop: id})
				}
			}
		}
		mrr := runJobs(env, mld, mjobs, specByEntry)
		jobs = append(jobs, mjobs...)
		for v, r := range mld.overlay {
			ld.overlay[v] = r
		}
		ld.loadDur += mld.loadDur
		rr.wall += mrr.wall
		rr.queries += mrr.queries
		rr.sat += mrr.sat
		rr.unsat += mrr.unsat
		rr.unknown += mrr.unknown
		rr.solverDur += mrr.solverDur
		if mrr.slowest > rr.slowest {
			rr.slowest = mrr.slowest
		}
		for f, file := range mrr.funcs {
			rr.funcs[f] = file
		}
		rr.samples = append(rr.samples, mrr.samples...)
		rr.solverErr = append(rr.solverErr, mrr.solverErr...)
		rr.timedOut = rr.timedOut || mrr.timedOut
		rr.crashed = append(rr.crashed, mrr.crashed...)
		rr.coreHits += mrr.coreHits
		rr.ivalSkips += mrr.ivalSkips
		rr.fallbacks += mrr.fallbacks
		for k, v := range mrr.siteStats {
			rr.siteStats[k] = v
		}
	}

	// ---- aggregate
	inconclusive := []string{}
	totalPaths, totalDecisions, totalOps := 0, 0, 0
	reach := map[string]int{}
	asserts := map[string]int{}
	panics := map[string]int{}
	aborted := map[string]int{}
	var samples []*PathRecord
	type violKey struct{ entry, label string }
	viols := map[violKey]*Violation{}
	var violOrder []violKey
	for _, j := range jobs {
		r := j.res
		totalPaths += r.paths
		totalDecisions += r.decisions
		totalOps += r.ops
		for k, v := range r.reach {
			reach[j.Entry+":"+k] += v
		}
		for k, v := range r.asserts {
			asserts[j.Entry+":"+k] += v
		}
		for k, v := range r.panics {
			panics[j.Entry+": "+k] += v
		}
		for k, v := range r.aborted {
			aborted[k] += v
		}
		for _, w := range r.inconcl {
			inconclusive = append(inconclusive, fmt.Sprintf("%s cfg=%d: %s", j.Entry, j.Cfg, w))
		}
		samples = append(samples, r.samples...)
		for _, l := range sortedKeys(r.viols) {
			k := violKey{j.Entry, l}
			if viols[k] == nil {
				viols[k] = &Violation{Label: l}
				violOrder = append(violOrder, k)
			}
			viols[k].Count += r.viols[l].Count
			if len(viols[k].Recs) < 3 {
				viols[k].Recs = append(viols[k].Recs, r.viols[l].Recs...)
			}
		}
		if r.paths == 0 {
			inconclusive = append(inconclusive, fmt.Sprintf("%s cfg=%d: no path explored", j.Entry, j.Cfg))
		}
	}
	if rr.timedOut {
		inconclusive = append(inconclusive, "time limit reached before the path space was exhausted")
	}
	for _, c := range rr.crashed {
		inconclusive = append(inconclusive, "engine crash: "+strings.SplitN(c, "\n", 2)[0])
		if env.Verbose {
			fmt.Fprintln(os.Stderr, c)
		}
	}
	for _, e := range rr.solverErr {
		inconclusive = append(inconclusive, "solver error line: "+e)
	}
	if rr.unknown > 0 {
		inconclusive = append(inconclusive, fmt.Sprintf("%d solver queries returned unknown", rr.unknown))
	}
	// vacuity: every job must have at least one completed path and every declared reach label must be hit
	for _, j := range jobs {
		if len(j.res.reach) == 0 && j.res.paths > 0 {
			inconclusive = append(inconclusive, fmt.Sprintf("vacuity: %s cfg=%d completed no path to a verifReach label", j.Entry, j.Cfg))
		}
	}
	for _, m := range spec.MustReach {
		if reach[m] == 0 {
			inconclusive = append(inconclusive, "vacuity: required label never reached: "+m)
		}
	}

	// ---- solver cross-check
	diffChecked := 0
	var diffDisagree []string
	if len(rr.samples) > 0 {
		// quick: the first 40 (z3 5.1.0) / 10 (cvc5) sampled queries; thorough: 480 / 160 spread evenly over the sample,
		// re-decided by 8 solver processes in parallel
		n, nc := 40, 10
		if tierN == 1 {
			n, nc = 480, 160
		}
		c1, d1 := crossCheckPar(strideSample(rr.samples, n), []string{"z3-new", "-in", "-smt2"}, env.SolverMs)
		c2, d2 := crossCheckPar(strideSample(rr.samples, nc), []string{"cvc5", "--incremental", "--lang=smt2", "--tlimit-per=60000"}, env.SolverMs)
		diffChecked = c1 + c2
		diffDisagree = append(d1, d2...)
		for _, d := range diffDisagree {
			inconclusive = append(inconclusive, "solver disagreement: "+d)
		}
	}

	// ---- translator validation + violation confirmation (native replays)
	validated := 0
	confirmed := map[violKey]*PathRecord{}
	var replayNotes []string
	if doReplay {
		// group by module/pkg of the entry
		group := map[string][]*PathRecord{}
		for _, s := range samples {
			js := specByEntry[s.Entry]
			group[js.Module+"|"+js.Pkg] = append(group[js.Module+"|"+js.Pkg], s)
		}
		for _, k := range violOrder {
			js := specByEntry[k.entry]
			for _, r := range viols[k].Recs {
				group[js.Module+"|"+js.Pkg] = append(group[js.Module+"|"+js.Pkg], r)
			}
		}
		for _, j := range jobs {
			js := specByEntry[j.Entry]
			for _, m := range sortedKeys(j.res.panicRecs) {
				group[js.Module+"|"+js.Pkg] = append(group[js.Module+"|"+js.Pkg], j.res.panicRecs[m])
			}
		}
		for gk, recs := range group {
			p := strings.SplitN(gk, "|", 2)
			outs, err := nativeReplay(env, ld, p[0], p[1], recs)
			if err != nil {
				inconclusive = append(inconclusive, "native replay failed: "+err.Error())
				continue
			}
			for i, rec := range recs {
				o := outs[i]
				ok, why := compareNative(rec, o)
				if rec.Outcome == "assert" {
					if ok {
						k := violKey{rec.Entry, rec.FailLabel}
						if confirmed[k] == nil {
							confirmed[k] = rec
						}
					} else {
						replayNotes = append(replayNotes, fmt.Sprintf("counterexample for %s:%s did not reproduce natively: %s", rec.Entry, rec.FailLabel, why))
					}
					continue
				}
				if ok {
					validated++
				} else {
					inconclusive = append(inconclusive, fmt.Sprintf("encoder disagreement on %s cfg=%d (%s): %s", rec.Entry, rec.Cfg, rec.Outcome, why))
				}
			}
		}
		for _, k := range violOrder {
			if confirmed[k] == nil {
				inconclusive = append(inconclusive, fmt.Sprintf("violation %s:%s found by the solver but not reproduced natively", k.entry, k.label))
			}
		}
	}

	// ---- report
	findings := loadFindings(env)
	exit := 0
	nviol := 0
	replayDir := filepath.Join(env.Verif, "replays")
	if d := os.Getenv("VERIF_EVIDENCE_DIR"); d != "" {
		replayDir = d
	}
	os.MkdirAll(replayDir, 0o755)
	for _, k := range violOrder {
		rec := confirmed[k]
		if rec == nil {
			if doReplay {
				continue
			}
			rec = viols[k].Recs[0]
		}
		known := false
		for _, f := range findings {
			if f.kind == "finding" && f.property == id && f.entry == k.entry && f.label == k.label {
				fmt.Printf("KNOWN-FINDING: property=%s %s\n", id, f.text)
				known = true
			}
		}
		if known {
			continue
		}
		nviol++
		path := filepath.Join(replayDir, fmt.Sprintf("%s-%s-%s.json", id, k.entry, sanitize(k.label)))
		writeJSON(path, []*PathRecord{rec})
		fmt.Printf("VIOLATION property=%s replay=%s\n", id, path)
		fmt.Printf("  entry=%s cfg=%d assert=%q inputs=%s (%d paths)\n", k.entry, rec.Cfg, k.label, fmtNondet(rec.Nondet), viols[k].Count)
		if rec.Note != "" {
			fmt.Printf("  note: %s\n", rec.Note)
		}
		exit = 1
	}
	for _, n := range replayNotes {
		fmt.Println("NOTE:", n)
	}
	if exit == 0 && len(inconclusive) > 0 {
		exit = 2
	}
	sort.Strings(inconclusive)
	for i, w := range inconclusive {
		if i > 12 {
			fmt.Printf("INCONCLUSIVE: ... %d more\n", len(inconclusive)-i)
			break
		}
		fmt.Println("INCONCLUSIVE:", w)
	}

	// ---- evidence
	bounds := spec.BoundsQuick
	if tierN == 1 && spec.BoundsThorough != "" {
		bounds = spec.BoundsThorough
	}
	var sampleOut []any
	for i, s := range samples {
		if i >= 5 {
			break
		}
		sampleOut = append(sampleOut, map[string]any{"entry": s.Entry, "cfg": s.Cfg, "inputs": fmtNondet(s.Nondet), "decisions": len(s.Decisions), "reach": s.Reach, "outcome": s.Outcome})
	}
	if len(sampleOut) == 0 {
		sampleOut = append(sampleOut, "no completed path")
	}
	level := spec.Level
	if level == "" {
		level = "model_checking"
	}
	files := sourceFilesOf(rr.funcs)
	jobList := []string{}
	for _, j := range jobs {
		deep := ""
		if j.Tier == 1 {
			deep = "/deep"
		}
		jobList = append(jobList, fmt.Sprintf("%s/cfg%d%s:paths=%d", j.Entry, j.Cfg, deep, j.res.paths))
	}
	cov := map[string]any{
		"states":                                max(totalPaths, 0),
		"transitions":                           totalDecisions + totalOps,
		"traces_validated_against_impl":         validated,
		"samples":                               sampleOut,
		"evaluations":                           totalPaths,
		"distinct_nontrivial":                   totalPaths,
		"rule":                                  "one evaluation = one symbolic path (a distinct vector of branch/concretisation decisions) of a harness entry, decided by the SMT solver for all values of the symbolic inputs; all are distinct by construction",
		"exhaustive":                            len(inconclusive) == 0,
		"explanation":                           "symbolic execution of the real code from go/ssa of /repo's working tree; states = symbolic paths fully explored, transitions = branch decisions + API operations executed; every path condition and assertion decided by z3 4.8.12 over 64-bit bit-vectors",
		"bounds":                                bounds,
		"outside_the_claim":                     spec.Outside,
		"jobs":                                  jobList,
		"functions_encoded":                     sortedFuncs(rr.funcs, true),
		"source_files_sha256_16":                files,
		"solver_queries":                        rr.queries,
		"solver_sat":                            rr.sat,
		"solver_unsat":                          rr.unsat,
		"solver_unknown":                        rr.unknown,
		"solver_time_s":                         round2(rr.solverDur.Seconds()),
		"solver_slowest_query_s":                round2(rr.slowest.Seconds()),
		"queries_avoided_by_unsat_core_cache":   rr.coreHits,
		"branches_decided_by_interval_analysis": rr.ivalSkips,
		"solver_diff_checked":                   diffChecked,
		"solver_diff_disagreements":             len(diffDisagree),
		"reach_counts":                          reach,
		"assert_sites_evaluated":                asserts,
		"paths_ended_in_panic":                  panics,
		"paths_aborted":                         aborted,
		"inconclusive":                          inconclusive,
		"load_time_s":                           round2(ld.loadDur.Seconds()),
		"explore_time_s":                        round2(rr.wall.Seconds()),
		"workers":                               env.Workers,
		"obligations":                           rr.queries,
		"discharged":                            rr.queries - rr.unknown,
		"checker_cmd":                           "/usr/bin/z3 -in -smt2 (z3 4.8.12, QF_BV, one fresh script per query), a sample re-decided by z3-new 5.1.0 and cvc5 1.0",
		"trusted_base":                          []string{"symgo engine (/verif/engine)", "golang.org/x/tools/go/ssa v0.50.0", "z3 4.8.12", "harness oracles in /verif/harness"},
	}
	ev := Evidence{PropertyID: id, Tier: tier, Seed: seed, Level: level, Coverage: cov,
		Assumptions: append([]string{"environment stubs of DESIGN.md §2.4"}, spec.Assumptions...), WallS: round2(time.Since(t0).Seconds()), Violations: nviol}
	if id != "DEV" {
		if err := writeJSON(evPath, ev); err != nil {
			fmt.Println("cannot write evidence:", err)
			return 2
		}
	}
	fmt.Printf("%s %s: paths=%d queries=%d (sat %d / unsat %d / unknown %d; core-cache hits %d, interval-decided %d) solver=%.1fs wall=%.1fs validated=%d violations=%d exit=%d\n",
		id, tier, totalPaths, rr.queries, rr.sat, rr.unsat, rr.unknown, rr.coreHits, rr.ivalSkips, rr.solverDur.Seconds(), time.Since(t0).Seconds(), validated, nviol, exit)
	if len(rr.siteStats) > 0 {
		type kv struct {
			k string
			v [3]int
		}
		var l []kv
		for k, v := range rr.siteStats {
			l = append(l, kv{k, *v})
		}
		sort.Slice(l, func(i, j int) bool { return l[i].v[0]+l[i].v[1] > l[j].v[0]+l[j].v[1] })
		for i, x := range l {
			if i > 40 {
				break
			}
			fmt.Printf("  site %-70s sat=%d unsat=%d\n", x.k, x.v[0], x.v[1])
		}
	}
	if env.Verbose {
		for _, k := range sortedKeys(reach) {
			fmt.Printf("  reach %s = %d\n", k, reach[k])
		}
		for _, k := range sortedKeys(panics) {
			fmt.Printf("  panic %s = %d\n", k, panics[k])
		}
		for _, k := range sortedKeys(aborted) {
			fmt.Printf("  aborted %s = %d\n", k, aborted[k])
		}
		for _, k := range violOrder {
			r := viols[k].Recs[0]
			fmt.Printf("  solver-violation %s:%s cfg=%d x%d confirmed=%v inputs=%s %s\n", k.entry, k.label, r.Cfg, viols[k].Count, confirmed[k] != nil, fmtNondet(r.Nondet), r.Note)
		}
	}
	return exit
}

func round2(f float64) float64 { return float64(int(f*100+0.5)) / 100 }

func fmtNondet(n []NondetVal) string {
	var sb strings.Builder
	for i, v := range n {
		if i > 0 {
			sb.WriteByte(' ')
		}
		if v.W == 64 {
			fmt.Fprintf(&sb, "%s=%d", v.Name, int64(v.Val))
		} else {
			fmt.Fprintf(&sb, "%s=%d", v.Name, v.Val)
		}
	}
	return sb.String()
}

// ---------------------------------------------------------------------------------------------
// native replay

type NativeOut struct {
	RaceReport string   `json:"race_report,omitempty"`
	Outcome    string   `json:"outcome"` // end | assert | panic | assume | timeout | exhausted
	Fail       string   `json:"fail,omitempty"`
	PanicMsg   string   `json:"panic_msg,omitempty"`
	Obs        []Obs    `json:"obs,omitempty"`
	Reach      []string `json:"reach,omitempty"`
}

func nativeReplay(env *Env, ld *Loaded, module, pkg string, recs []*PathRecord) ([]NativeOut, error) {
	dir := filepath.Join(env.Build, "replay")
	os.MkdirAll(dir, 0o755)
	tag := fmt.Sprintf("%d", os.Getpid())
	inF := filepath.Join(dir, "in-"+tag+".json")
	outF := filepath.Join(dir, "out-"+tag+".json")
	ovF := filepath.Join(dir, "overlay-"+tag+".json")
	defer os.Remove(inF)
	defer os.Remove(outF)
	defer os.Remove(ovF)
	if err := writeJSON(inF, recs); err != nil {
		return nil, err
	}
	repl := map[string]string{}
	for v, r := range ld.overlay {
		if strings.HasPrefix(v, filepath.Join(env.Repo, module, pkg)+"/") {
			repl[v] = r
		}
	}
	if module == "vam" {
		// existing in-package tests of vam do not build in this sandbox; blank them out
		empty := filepath.Join(dir, "empty_test.go")
		ents, _ := os.ReadDir(filepath.Join(env.Repo, module, pkg))
		pkgName := ""
		for v, r := range repl {
			if strings.HasSuffix(v, "zz_verif_support.go") {
				b, _ := os.ReadFile(r)
				for _, l := range strings.Split(string(b), "\n") {
					if strings.HasPrefix(l, "package ") {
						pkgName = strings.TrimSpace(strings.TrimPrefix(l, "package "))
						break
					}
				}
			}
		}
		os.WriteFile(empty, []byte("package "+pkgName+"\n"), 0o644)
		for _, e := range ents {
			if strings.HasSuffix(e.Name(), "_test.go") {
				repl[filepath.Join(env.Repo, module, pkg, e.Name())] = empty
			}
		}
	}
	if err := writeJSON(ovF, map[string]any{"Replace": repl}); err != nil {
		return nil, err
	}
	args := []string{"test", "-vet=off", "-count=1", "-tags=verif_harness", "-run", "^TestVerifReplay$", "-timeout", "20m", "-overlay", ovF, "./" + pkg}
	raceMode := false
	for _, r := range recs {
		if strings.HasPrefix(r.Entry, "Verif_C12") {
			raceMode = true
		}
	}
	if raceMode {
		// concurrency harnesses are replayed under the Go race detector, one record per process so that a report
		// can be attributed to its record
		return nativeReplayRace(env, module, pkg, recs, ovF, inF, outF)
	}
	cmd := exec.Command("go", args...)
	cmd.Dir = filepath.Join(env.Repo, module)
	cmd.Env = append(goEnv(env, module), "VERIF_REPLAY="+inF, "VERIF_REPLAY_OUT="+outF)
	out, err := cmd.CombinedOutput()
	b, rerr := os.ReadFile(outF)
	if rerr != nil {
		return nil, fmt.Errorf("go test produced no result file (%v): %s", err, tail(string(out), 2000))
	}
	var outs []NativeOut
	if err := json.Unmarshal(b, &outs); err != nil {
		return nil, err
	}
	for len(outs) < len(recs) {
		outs = append(outs, NativeOut{Outcome: "exhausted"})
	}
	return outs, nil
}

// nativeReplayRace runs every record in its own `go test -race` process. A "WARNING: DATA RACE" in the output turns
// the outcome of a record whose expected failure is the race assertion into that failure.
func nativeReplayRace(env *Env, module, pkg string, recs []*PathRecord, ovF, inF, outF string) ([]NativeOut, error) {
	var outs []NativeOut
	for _, rec := range recs {
		if err := writeJSON(inF, []*PathRecord{rec}); err != nil {
			return nil, err
		}
		os.Remove(outF)
		args := []string{"test", "-race", "-gcflags=all=-d=checkptr=0", "-vet=off", "-count=1", "-tags=verif_harness", "-run", "^TestVerifReplay$", "-timeout", "10m", "-overlay", ovF, "./" + pkg}
		cmd := exec.Command("go", args...)
		cmd.Dir = filepath.Join(env.Repo, module)
		cmd.Env = append(goEnv(env, module), "VERIF_REPLAY="+inF, "VERIF_REPLAY_OUT="+outF, "GORACE=halt_on_error=0", "VERIF_REPEAT=300")
		out, _ := cmd.CombinedOutput()
		var one []NativeOut
		if b, err := os.ReadFile(outF); err == nil {
			json.Unmarshal(b, &one)
		}
		o := NativeOut{Outcome: "exhausted"}
		if len(one) > 0 {
			o = one[0]
		} else if !strings.Contains(string(out), "DATA RACE") {
			return nil, fmt.Errorf("go test -race produced no result: %s ... %s", string(out)[:min(len(out), 1800)], tail(string(out), 300))
		}
		if strings.Contains(string(out), "WARNING: DATA RACE") {
			o.RaceReport = firstRace(string(out))
			if o.Outcome == "end" || o.Outcome == "exhausted" {
				o.Outcome, o.Fail = "assert", "C12/no-data-race"
			}
		}
		outs = append(outs, o)
	}
	return outs, nil
}

func firstRace(out string) string {
	i := strings.Index(out, "WARNING: DATA RACE")
	if i < 0 {
		return ""
	}
	s := out[i:]
	if j := strings.Index(s, "=================="); j > 0 {
		s = s[:j]
	}
	if len(s) > 1200 {
		s = s[:1200]
	}
	return s
}

func tail(s string, n int) string {
	if len(s) > n {
		return s[len(s)-n:]
	}
	return s
}

func compareNative(rec *PathRecord, o NativeOut) (bool, string) {
	switch rec.Outcome {
	case "assert":
		if o.Outcome == "assert" && (o.Fail == rec.FailLabel || strings.HasPrefix(o.Fail, rec.FailLabel+" [")) {
			return true, ""
		}
		return false, fmt.Sprintf("native outcome=%s fail=%q panic=%q", o.Outcome, o.Fail, o.PanicMsg)
	case "panic":
		if o.Outcome != "panic" {
			return false, fmt.Sprintf("engine panicked (%s) but native outcome=%s fail=%q", rec.PanicMsg, o.Outcome, o.Fail)
		}
		return true, ""
	case "end":
		if o.Outcome != "end" {
			return false, fmt.Sprintf("native outcome=%s fail=%q panic=%q", o.Outcome, o.Fail, o.PanicMsg)
		}
		if len(o.Obs) != len(rec.Obs) {
			return false, fmt.Sprintf("observation count %d vs native %d", len(rec.Obs), len(o.Obs))
		}
		for i := range o.Obs {
			if o.Obs[i] != rec.Obs[i] {
				return false, fmt.Sprintf("observation %d: engine %v native %v", i, rec.Obs[i], o.Obs[i])
			}
		}
		if strings.Join(o.Reach, ",") != strings.Join(rec.Reach, ",") {
			return false, fmt.Sprintf("reach labels %v vs native %v", rec.Reach, o.Reach)
		}
		return true, ""
	}
	return false, "unknown outcome " + rec.Outcome
}

func cmdReplay(env *Env, file string) int {
	b, err := os.ReadFile(file)
	if err != nil {
		fmt.Println(err)
		return 2
	}
	var recs []*PathRecord
	if err := json.Unmarshal(b, &recs); err != nil {
		fmt.Println(err)
		return 2
	}
	specs, err := loadSpecs(env)
	if err != nil {
		fmt.Println(err)
		return 2
	}
	var js *JobSpec
	for _, s := range specs {
		for i := range s.Jobs {
			if s.Jobs[i].Entry == recs[0].Entry {
				js = &s.Jobs[i]
			}
		}
	}
	if js == nil {
		// not in checks.json (development entry): look the function up in the harness directories
		filepath.WalkDir(filepath.Join(env.Verif, "harness"), func(p string, d os.DirEntry, err error) error {
			if err != nil || d.IsDir() || !strings.HasSuffix(p, ".go") {
				return nil
			}
			b, _ := os.ReadFile(p)
			if strings.Contains(string(b), "func "+recs[0].Entry+"(") {
				rel, _ := filepath.Rel(filepath.Join(env.Verif, "harness"), filepath.Dir(p))
				parts := strings.SplitN(rel, string(filepath.Separator), 2)
				pkg := "."
				if len(parts) == 2 {
					pkg = parts[1]
				}
				js = &JobSpec{Module: parts[0], Pkg: pkg, Entry: recs[0].Entry}
			}
			return nil
		})
	}
	if js == nil {
		fmt.Println("entry not found:", recs[0].Entry)
		return 2
	}
	ld := &Loaded{overlay: map[string]string{}}
	if js.Module == "vam" {
		prepareVamModfile(env)
	}
	ov, _, err := harnessOverlay(env, js.Module, js.Pkg)
	if err != nil {
		fmt.Println(err)
		return 2
	}
	ld.overlay = ov
	outs, err := nativeReplay(env, ld, js.Module, js.Pkg, recs)
	if err != nil {
		fmt.Println(err)
		return 2
	}
	rc := 0
	for i, o := range outs {
		fmt.Printf("replay %s cfg=%d inputs=%s -> native outcome=%s fail=%q panic=%q\n", recs[i].Entry, recs[i].Cfg, fmtNondet(recs[i].Nondet), o.Outcome, o.Fail, o.PanicMsg)
		if o.RaceReport != "" {
			fmt.Println(o.RaceReport)
		}
		if o.Outcome == "assert" {
			rc = 1
		}
	}
	return rc
}
