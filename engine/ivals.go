package main

import "math"

// A sound, cheap pre-filter for branch feasibility: signed/unsigned interval analysis over the term DAG,
// refined by the comparisons asserted on the current path. When the intervals decide a condition the solver
// is not asked; whenever they cannot, the solver decides. Every rule gives up (full range) on possible wrap-around.

// ival is a value range. For 64-bit terms it is the range of the signed interpretation; for narrower terms the
// range of the unsigned interpretation (always within [0, 2^w-1]).
type ival struct{ lo, hi int64 }

func fullIval(w int) ival {
	if w >= 64 {
		return ival{math.MinInt64, math.MaxInt64}
	}
	return ival{0, int64(mask(w))}
}

func (a ival) inter(b ival) ival {
	if b.lo > a.lo {
		a.lo = b.lo
	}
	if b.hi < a.hi {
		a.hi = b.hi
	}
	return a
}

func (a ival) join(b ival) ival {
	if b.lo < a.lo {
		a.lo = b.lo
	}
	if b.hi > a.hi {
		a.hi = b.hi
	}
	return a
}

func addOv(a, b int64) (int64, bool) {
	c := a + b
	if (c > a) == (b > 0) {
		return c, true
	}
	return 0, false
}

func mulOv(a, b int64) (int64, bool) {
	if a == 0 || b == 0 {
		return 0, true
	}
	c := a * b
	if c/b != a || (a == -1 && b == math.MinInt64) || (b == -1 && a == math.MinInt64) {
		return 0, false
	}
	return c, true
}

type Ranges struct {
	bounds map[int]ival
	cache  map[int]ival
	tcache map[int]int8
	empty  bool // the refinements are contradictory (the path is infeasible); no conclusions are drawn
}

func newRanges() *Ranges {
	return &Ranges{bounds: map[int]ival{}, cache: map[int]ival{}, tcache: map[int]int8{}}
}

func (r *Ranges) invalidate() {
	r.cache = map[int]ival{}
	r.tcache = map[int]int8{}
}

func fits(v ival, w int) bool {
	f := fullIval(w)
	return v.lo >= f.lo && v.hi <= f.hi && v.lo <= v.hi
}

func (r *Ranges) rangeOf(t *Term) ival {
	if v, ok := r.cache[t.id]; ok {
		return v
	}
	v := r.compute(t)
	if b, ok := r.bounds[t.id]; ok {
		v = v.inter(b)
	}
	if v.lo > v.hi { // contradictory information: be safe
		r.empty = true
		v = fullIval(t.w)
	}
	r.cache[t.id] = v
	return v
}

func (r *Ranges) compute(t *Term) ival {
	w := t.w
	full := fullIval(w)
	switch t.op {
	case "const":
		if w >= 64 {
			return ival{int64(t.val), int64(t.val)}
		}
		return ival{int64(t.val), int64(t.val)}
	case "var":
		return full
	case "ite":
		switch r.tri(t.args[0]) {
		case 1:
			return r.rangeOf(t.args[1])
		case 0:
			return r.rangeOf(t.args[2])
		}
		return r.rangeOf(t.args[1]).join(r.rangeOf(t.args[2]))
	case "zext":
		return r.rangeOf(t.args[0])
	case "sext":
		a := r.rangeOf(t.args[0])
		sw := t.args[0].w
		if a.hi < int64(1)<<(sw-1) {
			return a
		}
		if w >= 64 {
			return ival{-(int64(1) << (sw - 1)), int64(1)<<(sw-1) - 1}
		}
		return full
	case "extract":
		a := r.rangeOf(t.args[0])
		if a.lo >= 0 && a.hi <= full.hi {
			return a
		}
		return full
	case "bvneg":
		a := r.rangeOf(t.args[0])
		if w >= 64 && a.lo > math.MinInt64 {
			return ival{-a.hi, -a.lo}
		}
		return full
	case "bvnot":
		a := r.rangeOf(t.args[0])
		if w >= 64 {
			return ival{^a.hi, ^a.lo}
		}
		return ival{full.hi - a.hi, full.hi - a.lo}
	}
	if len(t.args) != 2 {
		return full
	}
	a, b := r.rangeOf(t.args[0]), r.rangeOf(t.args[1])
	nonneg := a.lo >= 0 && b.lo >= 0
	switch t.op {
	case "bvadd":
		lo, ok1 := addOv(a.lo, b.lo)
		hi, ok2 := addOv(a.hi, b.hi)
		if ok1 && ok2 && fits(ival{lo, hi}, w) {
			return ival{lo, hi}
		}
	case "bvsub":
		if b.lo == math.MinInt64 {
			return full
		}
		lo, ok1 := addOv(a.lo, -b.hi)
		hi, ok2 := addOv(a.hi, -b.lo)
		if b.hi == math.MinInt64 {
			ok1 = false
		}
		if ok1 && ok2 && fits(ival{lo, hi}, w) {
			return ival{lo, hi}
		}
	case "bvmul":
		if nonneg {
			lo, ok1 := mulOv(a.lo, b.lo)
			hi, ok2 := mulOv(a.hi, b.hi)
			if ok1 && ok2 && fits(ival{lo, hi}, w) {
				return ival{lo, hi}
			}
		}
	case "bvand":
		switch {
		case nonneg:
			return ival{0, min(a.hi, b.hi)}
		case a.lo >= 0:
			return ival{0, a.hi}
		case b.lo >= 0:
			return ival{0, b.hi}
		}
	case "bvor", "bvxor":
		if nonneg {
			m := max(a.hi, b.hi)
			// smallest 2^k-1 >= m
			p := int64(1)
			for p <= m && p > 0 {
				p <<= 1
			}
			if p > 0 {
				lo := int64(0)
				if t.op == "bvor" {
					lo = max(a.lo, b.lo)
				}
				return ival{lo, p - 1}
			}
		}
	case "bvshl":
		if nonneg && b.lo == b.hi && b.lo < 63 {
			k := uint(b.lo)
			if a.hi <= math.MaxInt64>>k {
				v := ival{a.lo << k, a.hi << k}
				if fits(v, w) {
					return v
				}
			}
		}
	case "bvlshr":
		if a.lo >= 0 {
			if b.lo == b.hi && b.lo >= 0 && b.lo < 64 {
				return ival{a.lo >> uint(b.lo), a.hi >> uint(b.lo)}
			}
			return ival{0, a.hi}
		}
	case "bvashr":
		if w >= 64 && b.lo == b.hi && b.lo >= 0 && b.lo < 64 {
			return ival{a.lo >> uint(b.lo), a.hi >> uint(b.lo)}
		}
		if a.lo >= 0 && (w >= 64 || a.hi < int64(1)<<(w-1)) {
			return ival{0, a.hi}
		}
	case "bvudiv", "bvsdiv":
		if nonneg && b.lo >= 1 {
			return ival{a.lo / b.hi, a.hi / b.lo}
		}
	case "bvurem", "bvsrem":
		if nonneg && b.lo >= 1 {
			return ival{0, min(a.hi, b.hi-1)}
		}
	}
	return full
}

// tri evaluates a Boolean term to 1 (true), 0 (false) or -1 (unknown) from the ranges.
func (r *Ranges) tri(c *Term) int {
	if v, ok := r.tcache[c.id]; ok {
		return int(v)
	}
	v := r.tri1(c)
	r.tcache[c.id] = int8(v)
	return v
}

func (r *Ranges) tri1(c *Term) int {
	switch c.op {
	case "const":
		return int(c.val)
	case "not":
		v := r.tri(c.args[0])
		if v < 0 {
			return -1
		}
		return 1 - v
	case "and":
		a, b := r.tri(c.args[0]), r.tri(c.args[1])
		if a == 0 || b == 0 {
			return 0
		}
		if a == 1 && b == 1 {
			return 1
		}
		return -1
	case "or":
		a, b := r.tri(c.args[0]), r.tri(c.args[1])
		if a == 1 || b == 1 {
			return 1
		}
		if a == 0 && b == 0 {
			return 0
		}
		return -1
	case "ite":
		switch r.tri(c.args[0]) {
		case 1:
			return r.tri(c.args[1])
		case 0:
			return r.tri(c.args[2])
		}
		a, b := r.tri(c.args[1]), r.tri(c.args[2])
		if a == b {
			return a
		}
		return -1
	case "=", "bvslt", "bvsle", "bvult", "bvule":
		x, y := c.args[0], c.args[1]
		if x.w == 0 {
			return -1
		}
		a, b := r.rangeOf(x), r.rangeOf(y)
		w := x.w
		signedOp := c.op == "bvslt" || c.op == "bvsle"
		// bring both ranges into the interpretation the operator compares in
		if c.op != "=" {
			if w >= 64 && !signedOp { // unsigned compare on signed ranges: only when both are non-negative
				if a.lo < 0 || b.lo < 0 {
					return -1
				}
			}
			if w < 64 && signedOp { // signed compare on unsigned ranges: only below the sign bit
				half := int64(1) << (w - 1)
				if a.hi >= half || b.hi >= half {
					return -1
				}
			}
		}
		switch c.op {
		case "=":
			if a.hi < b.lo || b.hi < a.lo {
				return 0
			}
			if a.lo == a.hi && b.lo == b.hi && a.lo == b.lo {
				return 1
			}
		case "bvslt", "bvult":
			if a.hi < b.lo {
				return 1
			}
			if a.lo >= b.hi {
				return 0
			}
		case "bvsle", "bvule":
			if a.hi <= b.lo {
				return 1
			}
			if a.lo > b.hi {
				return 0
			}
		}
	}
	return -1
}

func (r *Ranges) refineTerm(t *Term, b ival) {
	cur, ok := r.bounds[t.id]
	if !ok {
		cur = fullIval(t.w)
	}
	nb := cur.inter(b)
	if nb == cur && ok {
		return
	}
	r.bounds[t.id] = nb
	// push the bound through x + const when that cannot wrap
	if t.op == "bvadd" && t.args[1].IsConst() && t.w >= 64 {
		c := int64(t.args[1].val)
		xr := r.rangeOf(t.args[0])
		// only when x + c provably does not wrap
		if _, ok1 := addOv(xr.lo, c); ok1 {
			if _, ok2 := addOv(xr.hi, c); ok2 {
				lo, okl := addOv(nb.lo, -c)
				hi, okh := addOv(nb.hi, -c)
				if c != math.MinInt64 && okl && okh {
					r.refineTerm(t.args[0], ival{lo, hi})
				}
			}
		}
	}
}

// assume records that c has truth value v on this path.
func (r *Ranges) assume(c *Term, v bool) {
	switch c.op {
	case "not":
		r.assume(c.args[0], !v)
		return
	case "and":
		if v {
			r.assume(c.args[0], true)
			r.assume(c.args[1], true)
		}
		return
	case "or":
		if !v {
			r.assume(c.args[0], false)
			r.assume(c.args[1], false)
		}
		return
	case "=", "bvslt", "bvsle", "bvult", "bvule":
	default:
		return
	}
	x, y := c.args[0], c.args[1]
	if x.w == 0 {
		return
	}
	a, b := r.rangeOf(x), r.rangeOf(y)
	w := x.w
	signedOp := c.op == "bvslt" || c.op == "bvsle"
	if c.op != "=" {
		if w >= 64 && !signedOp && (a.lo < 0 || b.lo < 0) {
			// unsigned comparison with a constant bound still tells something: x <u c with c >= 0 means 0 <= x < c
			if v && b.lo >= 0 && (c.op == "bvult" || c.op == "bvule") {
				hi := b.hi
				if c.op == "bvult" {
					hi--
				}
				r.refineTerm(x, ival{0, hi})
				r.invalidate()
			}
			return
		}
		if w < 64 && signedOp {
			half := int64(1) << (w - 1)
			if a.hi >= half || b.hi >= half {
				return
			}
		}
	}
	op := c.op
	if !v { // negate: !(x < y) == y <= x ; !(x <= y) == y < x
		switch op {
		case "=":
			return // disequality: no interval information
		case "bvslt", "bvult":
			op, x, y, a, b = "le", y, x, b, a
		case "bvsle", "bvule":
			op, x, y, a, b = "lt", y, x, b, a
		}
	} else {
		switch op {
		case "bvslt", "bvult":
			op = "lt"
		case "bvsle", "bvule":
			op = "le"
		}
	}
	switch op {
	case "=":
		m := a.inter(b)
		r.refineTerm(x, m)
		r.refineTerm(y, m)
	case "lt": // x < y
		if b.hi > fullIval(w).lo {
			r.refineTerm(x, ival{fullIval(w).lo, b.hi - 1})
		}
		if a.lo < fullIval(w).hi {
			r.refineTerm(y, ival{a.lo + 1, fullIval(w).hi})
		}
	case "le": // x <= y
		r.refineTerm(x, ival{fullIval(w).lo, b.hi})
		r.refineTerm(y, ival{a.lo, fullIval(w).hi})
	}
	r.invalidate()
}
