package main

import (
	"fmt"
	"math/bits"
	"strings"
)

// Term is a hash-consed SMT term. w==0 means Bool.
type Term struct {
	op   string
	w    int
	args []*Term
	val  uint64 // for const (bool: 0/1)
	name string // for var
	id   int
	smt  string
}

var termTab = map[string]*Term{}
var termCnt int

func mk(op string, w int, val uint64, name string, args ...*Term) *Term {
	var sb strings.Builder
	fmt.Fprintf(&sb, "%s/%d/%d/%s", op, w, val, name)
	for _, a := range args {
		fmt.Fprintf(&sb, ",%d", a.id)
	}
	k := sb.String()
	if t, ok := termTab[k]; ok {
		return t
	}
	termCnt++
	t := &Term{op: op, w: w, args: args, val: val, name: name, id: termCnt}
	termTab[k] = t
	return t
}

func mask(w int) uint64 {
	if w >= 64 {
		return ^uint64(0)
	}
	return (uint64(1) << uint(w)) - 1
}
func Const(w int, v uint64) *Term { return mk("const", w, v&mask(w), "") }
func Bool(b bool) *Term {
	if b {
		return mk("const", 0, 1, "")
	}
	return mk("const", 0, 0, "")
}
func Var(name string, w int) *Term { return mk("var", w, 0, name) }
func (t *Term) IsConst() bool      { return t.op == "const" }
func (t *Term) True() bool         { return t.op == "const" && t.w == 0 && t.val == 1 }
func (t *Term) False() bool        { return t.op == "const" && t.w == 0 && t.val == 0 }

func sext(v uint64, w int) int64 {
	if w >= 64 {
		return int64(v)
	}
	sh := uint(64 - w)
	return int64(v<<sh) >> sh
}

func BV(op string, a, b *Term) *Term {
	w := a.w
	if a.w != b.w {
		panic(fmt.Sprintf("width mismatch %s %d %d", op, a.w, b.w))
	}
	if a.IsConst() && b.IsConst() {
		x, y := a.val, b.val
		switch op {
		case "bvadd":
			return Const(w, x+y)
		case "bvsub":
			return Const(w, x-y)
		case "bvmul":
			return Const(w, x*y)
		case "bvand":
			return Const(w, x&y)
		case "bvor":
			return Const(w, x|y)
		case "bvxor":
			return Const(w, x^y)
		case "bvshl":
			if y >= uint64(w) {
				return Const(w, 0)
			}
			return Const(w, x<<y)
		case "bvlshr":
			if y >= uint64(w) {
				return Const(w, 0)
			}
			return Const(w, x>>y)
		case "bvashr":
			if y >= uint64(w) {
				y = uint64(w - 1)
			}
			return Const(w, uint64(sext(x, w)>>y))
		case "bvudiv":
			if y != 0 {
				return Const(w, x/y)
			}
		case "bvurem":
			if y != 0 {
				return Const(w, x%y)
			}
		case "bvsdiv":
			if y != 0 {
				return Const(w, uint64(sext(x, w)/sext(y, w)))
			}
		case "bvsrem":
			if y != 0 {
				return Const(w, uint64(sext(x, w)%sext(y, w)))
			}
		}
	}
	// division / remainder by a constant power of two: avoid divider circuits
	if b.IsConst() && b.val != 0 && b.val&(b.val-1) == 0 && (op == "bvudiv" || op == "bvurem" || op == "bvsdiv" || op == "bvsrem") {
		k := uint64(bits.TrailingZeros64(b.val))
		switch op {
		case "bvudiv":
			return BV("bvlshr", a, Const(w, k))
		case "bvurem":
			return BV("bvand", a, Const(w, b.val-1))
		case "bvsdiv":
			neg := Cmp("bvslt", a, Const(w, 0))
			adj := Ite(neg, BV("bvadd", a, Const(w, b.val-1)), a)
			return BV("bvashr", adj, Const(w, k))
		case "bvsrem":
			q := BV("bvsdiv", a, b)
			return BV("bvsub", a, BV("bvshl", q, Const(w, k)))
		}
	}
	// light simplifications
	switch op {
	case "bvadd":
		if a.IsConst() && a.val == 0 {
			return b
		}
		if b.IsConst() && b.val == 0 {
			return a
		}
	case "bvsub":
		if b.IsConst() && b.val == 0 {
			return a
		}
		if a == b {
			return Const(w, 0)
		}
	case "bvand":
		if (a.IsConst() && a.val == 0) || (b.IsConst() && b.val == 0) {
			return Const(w, 0)
		}
		if a.IsConst() && a.val == mask(w) {
			return b
		}
		if b.IsConst() && b.val == mask(w) {
			return a
		}
	case "bvor", "bvxor":
		if a.IsConst() && a.val == 0 {
			return b
		}
		if b.IsConst() && b.val == 0 {
			return a
		}
	case "bvshl", "bvlshr", "bvashr":
		if b.IsConst() && b.val == 0 {
			return a
		}
	case "bvmul":
		if a.IsConst() && a.val == 1 {
			return b
		}
		if b.IsConst() && b.val == 1 {
			return a
		}
	}
	return mk(op, w, 0, "", a, b)
}

func Cmp(op string, a, b *Term) *Term {
	if a.w != b.w {
		panic(fmt.Sprintf("cmp width mismatch %s %d %d", op, a.w, b.w))
	}
	if a.IsConst() && b.IsConst() {
		x, y := a.val, b.val
		sx, sy := sext(x, a.w), sext(y, a.w)
		switch op {
		case "=":
			return Bool(x == y)
		case "bvult":
			return Bool(x < y)
		case "bvule":
			return Bool(x <= y)
		case "bvslt":
			return Bool(sx < sy)
		case "bvsle":
			return Bool(sx <= sy)
		}
	}
	if a == b {
		switch op {
		case "=", "bvule", "bvsle":
			return Bool(true)
		default:
			return Bool(false)
		}
	}
	return mk(op, 0, 0, "", a, b)
}

func Not(a *Term) *Term {
	if a.IsConst() {
		return Bool(a.val == 0)
	}
	if a.op == "not" {
		return a.args[0]
	}
	return mk("not", 0, 0, "", a)
}
func And(a, b *Term) *Term {
	if a.False() || b.False() {
		return Bool(false)
	}
	if a.True() {
		return b
	}
	if b.True() {
		return a
	}
	return mk("and", 0, 0, "", a, b)
}
func Or(a, b *Term) *Term {
	if a.True() || b.True() {
		return Bool(true)
	}
	if a.False() {
		return b
	}
	if b.False() {
		return a
	}
	return mk("or", 0, 0, "", a, b)
}
func Ite(c, a, b *Term) *Term {
	if c.True() {
		return a
	}
	if c.False() {
		return b
	}
	if a == b {
		return a
	}
	return mk("ite", a.w, 0, "", c, a, b)
}
func BvNot(a *Term) *Term {
	if a.IsConst() {
		return Const(a.w, ^a.val)
	}
	return mk("bvnot", a.w, 0, "", a)
}
func BvNeg(a *Term) *Term {
	if a.IsConst() {
		return Const(a.w, -a.val)
	}
	return mk("bvneg", a.w, 0, "", a)
}

// Resize converts to width w with zero or sign extension / truncation.
func Resize(a *Term, w int, signed bool) *Term {
	if a.w == w {
		return a
	}
	if a.IsConst() {
		if w < a.w {
			return Const(w, a.val)
		}
		if signed {
			return Const(w, uint64(sext(a.val, a.w)))
		}
		return Const(w, a.val)
	}
	if w < a.w {
		return mk("extract", w, uint64(w-1), "", a)
	}
	if signed {
		return mk("sext", w, uint64(w-a.w), "", a)
	}
	return mk("zext", w, uint64(w-a.w), "", a)
}

func Clz64(x *Term) *Term {
	if x.IsConst() {
		return Const(64, uint64(bits.LeadingZeros64(x.val)))
	}
	c := Const(64, 0)
	y := x
	for _, sh := range []uint64{32, 16, 8, 4, 2, 1} {
		hi := BV("bvlshr", y, Const(64, sh))
		cond := Not(Cmp("=", hi, Const(64, 0)))
		c = Ite(cond, c, BV("bvadd", c, Const(64, sh)))
		y = Ite(cond, hi, y)
	}
	return Ite(Cmp("=", x, Const(64, 0)), Const(64, 64), c)
}
func Ctz64(x *Term) *Term {
	if x.IsConst() {
		return Const(64, uint64(bits.TrailingZeros64(x.val)))
	}
	// ctz(x) = 63 - clz(x & -x) for x != 0
	low := BV("bvand", x, BvNeg(x))
	return Ite(Cmp("=", x, Const(64, 0)), Const(64, 64), BV("bvsub", Const(64, 63), Clz64(low)))
}

func (t *Term) SMT() string {
	if t.smt != "" {
		return t.smt
	}
	var s string
	switch t.op {
	case "const":
		if t.w == 0 {
			if t.val == 1 {
				s = "true"
			} else {
				s = "false"
			}
		} else {
			s = fmt.Sprintf("(_ bv%d %d)", t.val, t.w)
		}
	case "var":
		s = t.name
	case "extract":
		s = fmt.Sprintf("((_ extract %d 0) %s)", t.val, t.args[0].SMT())
	case "sext":
		s = fmt.Sprintf("((_ sign_extend %d) %s)", t.val, t.args[0].SMT())
	case "zext":
		s = fmt.Sprintf("((_ zero_extend %d) %s)", t.val, t.args[0].SMT())
	default:
		var sb strings.Builder
		sb.WriteString("(")
		sb.WriteString(t.op)
		for _, a := range t.args {
			sb.WriteString(" ")
			sb.WriteString(a.SMT())
		}
		sb.WriteString(")")
		s = sb.String()
	}
	t.smt = s
	return s
}
