package main

import (
	"fmt"
	"math/bits"
	"strings"
)

var _ = strings.Join

// Term is a hash-consed SMT term. w==0 means Bool.
type Term struct {
	op   string
	w    int
	args []*Term
	val  uint64 // for const (bool: 0/1)
	name string // for var
	id   int
	smt  string
}

// TB is a per-worker term builder (hash-consing table). Not safe for concurrent use.
type TB struct {
	tab map[termKey]*Term
	cnt int
}

func NewTB() *TB { return &TB{tab: map[termKey]*Term{}} }

type termKey struct {
	op         string
	w          int
	val        uint64
	name       string
	a0, a1, a2 int
}

func (tb *TB) mk(op string, w int, val uint64, name string, args ...*Term) *Term {
	k := termKey{op: op, w: w, val: val, name: name}
	switch len(args) {
	case 3:
		k.a2 = args[2].id
		fallthrough
	case 2:
		k.a1 = args[1].id
		fallthrough
	case 1:
		k.a0 = args[0].id
	case 0:
	default:
		panic("mk: too many args")
	}
	if t, ok := tb.tab[k]; ok {
		return t
	}
	tb.cnt++
	t := &Term{op: op, w: w, args: args, val: val, name: name, id: tb.cnt}
	tb.tab[k] = t
	return t
}

func mask(w int) uint64 {
	if w >= 64 {
		return ^uint64(0)
	}
	return (uint64(1) << uint(w)) - 1
}
func (tb *TB) Const(w int, v uint64) *Term { return tb.mk("const", w, v&mask(w), "") }
func (tb *TB) Bool(b bool) *Term {
	if b {
		return tb.mk("const", 0, 1, "")
	}
	return tb.mk("const", 0, 0, "")
}
func (tb *TB) Var(name string, w int) *Term { return tb.mk("var", w, 0, name) }
func (t *Term) IsConst() bool               { return t.op == "const" }
func (t *Term) True() bool                  { return t.op == "const" && t.w == 0 && t.val == 1 }
func (t *Term) False() bool                 { return t.op == "const" && t.w == 0 && t.val == 0 }

func sext(v uint64, w int) int64 {
	if w >= 64 {
		return int64(v)
	}
	sh := uint(64 - w)
	return int64(v<<sh) >> sh
}

func (tb *TB) BV(op string, a, b *Term) *Term {
	w := a.w
	if a.w != b.w {
		panic(fmt.Sprintf("width mismatch %s %d %d", op, a.w, b.w))
	}
	if a.IsConst() && b.IsConst() {
		x, y := a.val, b.val
		switch op {
		case "bvadd":
			return tb.Const(w, x+y)
		case "bvsub":
			return tb.Const(w, x-y)
		case "bvmul":
			return tb.Const(w, x*y)
		case "bvand":
			return tb.Const(w, x&y)
		case "bvor":
			return tb.Const(w, x|y)
		case "bvxor":
			return tb.Const(w, x^y)
		case "bvshl":
			if y >= uint64(w) {
				return tb.Const(w, 0)
			}
			return tb.Const(w, x<<y)
		case "bvlshr":
			if y >= uint64(w) {
				return tb.Const(w, 0)
			}
			return tb.Const(w, x>>y)
		case "bvashr":
			if y >= uint64(w) {
				y = uint64(w - 1)
			}
			return tb.Const(w, uint64(sext(x, w)>>y))
		case "bvudiv":
			if y != 0 {
				return tb.Const(w, x/y)
			}
		case "bvurem":
			if y != 0 {
				return tb.Const(w, x%y)
			}
		case "bvsdiv":
			if y != 0 {
				return tb.Const(w, uint64(sext(x, w)/sext(y, w)))
			}
		case "bvsrem":
			if y != 0 {
				return tb.Const(w, uint64(sext(x, w)%sext(y, w)))
			}
		}
	}
	// division / remainder by a constant power of two: avoid divider circuits
	if b.IsConst() && b.val != 0 && b.val&(b.val-1) == 0 && (op == "bvudiv" || op == "bvurem" || op == "bvsdiv" || op == "bvsrem") {
		k := uint64(bits.TrailingZeros64(b.val))
		switch op {
		case "bvudiv":
			return tb.BV("bvlshr", a, tb.Const(w, k))
		case "bvurem":
			return tb.BV("bvand", a, tb.Const(w, b.val-1))
		case "bvsdiv":
			neg := tb.Cmp("bvslt", a, tb.Const(w, 0))
			adj := tb.Ite(neg, tb.BV("bvadd", a, tb.Const(w, b.val-1)), a)
			return tb.BV("bvashr", adj, tb.Const(w, k))
		case "bvsrem":
			q := tb.BV("bvsdiv", a, b)
			return tb.BV("bvsub", a, tb.BV("bvshl", q, tb.Const(w, k)))
		}
	}
	// normalise x - c to x + (-c) and fold constants through nested additions
	if op == "bvsub" && b.IsConst() {
		return tb.BV("bvadd", a, tb.Const(w, -b.val))
	}
	if op == "bvadd" {
		if a.IsConst() && !b.IsConst() {
			a, b = b, a
		}
		if b.IsConst() && a.op == "bvadd" && a.args[1].IsConst() {
			return tb.BV("bvadd", a.args[0], tb.Const(w, a.args[1].val+b.val))
		}
	}
	// light simplifications
	switch op {
	case "bvadd":
		if a.IsConst() && a.val == 0 {
			return b
		}
		if b.IsConst() && b.val == 0 {
			return a
		}
	case "bvsub":
		if b.IsConst() && b.val == 0 {
			return a
		}
		if a == b {
			return tb.Const(w, 0)
		}
	case "bvand":
		if (a.IsConst() && a.val == 0) || (b.IsConst() && b.val == 0) {
			return tb.Const(w, 0)
		}
		if a.IsConst() && a.val == mask(w) {
			return b
		}
		if b.IsConst() && b.val == mask(w) {
			return a
		}
	case "bvor", "bvxor":
		if a.IsConst() && a.val == 0 {
			return b
		}
		if b.IsConst() && b.val == 0 {
			return a
		}
	case "bvshl", "bvlshr", "bvashr":
		if b.IsConst() && b.val == 0 {
			return a
		}
	case "bvmul":
		if a.IsConst() && a.val == 1 {
			return b
		}
		if b.IsConst() && b.val == 1 {
			return a
		}
	}
	return tb.mk(op, w, 0, "", a, b)
}

func (tb *TB) Cmp(op string, a, b *Term) *Term {
	if a.w != b.w {
		panic(fmt.Sprintf("cmp width mismatch %s %d %d", op, a.w, b.w))
	}
	if a.IsConst() && b.IsConst() {
		x, y := a.val, b.val
		sx, sy := sext(x, a.w), sext(y, a.w)
		switch op {
		case "=":
			return tb.Bool(x == y)
		case "bvult":
			return tb.Bool(x < y)
		case "bvule":
			return tb.Bool(x <= y)
		case "bvslt":
			return tb.Bool(sx < sy)
		case "bvsle":
			return tb.Bool(sx <= sy)
		}
	}
	if a == b {
		switch op {
		case "=", "bvule", "bvsle":
			return tb.Bool(true)
		default:
			return tb.Bool(false)
		}
	}
	return tb.mk(op, 0, 0, "", a, b)
}

func (tb *TB) Not(a *Term) *Term {
	if a.IsConst() {
		return tb.Bool(a.val == 0)
	}
	if a.op == "not" {
		return a.args[0]
	}
	return tb.mk("not", 0, 0, "", a)
}
func (tb *TB) And(a, b *Term) *Term {
	if a.False() || b.False() {
		return tb.Bool(false)
	}
	if a.True() {
		return b
	}
	if b.True() {
		return a
	}
	return tb.mk("and", 0, 0, "", a, b)
}
func (tb *TB) Or(a, b *Term) *Term {
	if a.True() || b.True() {
		return tb.Bool(true)
	}
	if a.False() {
		return b
	}
	if b.False() {
		return a
	}
	return tb.mk("or", 0, 0, "", a, b)
}
func (tb *TB) Ite(c, a, b *Term) *Term {
	if c.True() {
		return a
	}
	if c.False() {
		return b
	}
	if a == b {
		return a
	}
	return tb.mk("ite", a.w, 0, "", c, a, b)
}
func (tb *TB) BvNot(a *Term) *Term {
	if a.IsConst() {
		return tb.Const(a.w, ^a.val)
	}
	return tb.mk("bvnot", a.w, 0, "", a)
}
func (tb *TB) BvNeg(a *Term) *Term {
	if a.IsConst() {
		return tb.Const(a.w, -a.val)
	}
	return tb.mk("bvneg", a.w, 0, "", a)
}

// Resize converts to width w with zero or sign extension / truncation.
func (tb *TB) Resize(a *Term, w int, signed bool) *Term {
	if a.w == w {
		return a
	}
	if a.IsConst() {
		if w < a.w {
			return tb.Const(w, a.val)
		}
		if signed {
			return tb.Const(w, uint64(sext(a.val, a.w)))
		}
		return tb.Const(w, a.val)
	}
	if w < a.w {
		return tb.mk("extract", w, uint64(w-1), "", a)
	}
	if signed {
		return tb.mk("sext", w, uint64(w-a.w), "", a)
	}
	return tb.mk("zext", w, uint64(w-a.w), "", a)
}

func (tb *TB) Clz64(x *Term) *Term {
	if x.IsConst() {
		return tb.Const(64, uint64(bits.LeadingZeros64(x.val)))
	}
	c := tb.Const(64, 0)
	y := x
	for _, sh := range []uint64{32, 16, 8, 4, 2, 1} {
		hi := tb.BV("bvlshr", y, tb.Const(64, sh))
		cond := tb.Not(tb.Cmp("=", hi, tb.Const(64, 0)))
		c = tb.Ite(cond, c, tb.BV("bvadd", c, tb.Const(64, sh)))
		y = tb.Ite(cond, hi, y)
	}
	return tb.Ite(tb.Cmp("=", x, tb.Const(64, 0)), tb.Const(64, 64), c)
}
func (tb *TB) Ctz64(x *Term) *Term {
	if x.IsConst() {
		return tb.Const(64, uint64(bits.TrailingZeros64(x.val)))
	}
	// ctz(x) = 63 - clz(x & -x) for x != 0
	low := tb.BV("bvand", x, tb.BvNeg(x))
	return tb.Ite(tb.Cmp("=", x, tb.Const(64, 0)), tb.Const(64, 64), tb.BV("bvsub", tb.Const(64, 63), tb.Clz64(low)))
}

func (t *Term) SMT() string {
	if t.smt != "" {
		return t.smt
	}
	var s string
	switch t.op {
	case "const":
		if t.w == 0 {
			if t.val == 1 {
				s = "true"
			} else {
				s = "false"
			}
		} else {
			s = fmt.Sprintf("(_ bv%d %d)", t.val, t.w)
		}
	case "var":
		s = t.name
	case "extract":
		s = fmt.Sprintf("((_ extract %d 0) %s)", t.val, t.args[0].SMT())
	case "sext":
		s = fmt.Sprintf("((_ sign_extend %d) %s)", t.val, t.args[0].SMT())
	case "zext":
		s = fmt.Sprintf("((_ zero_extend %d) %s)", t.val, t.args[0].SMT())
	default:
		var sb strings.Builder
		sb.WriteString("(")
		sb.WriteString(t.op)
		for _, a := range t.args {
			sb.WriteString(" ")
			sb.WriteString(a.SMT())
		}
		sb.WriteString(")")
		s = sb.String()
	}
	t.smt = s
	return s
}

// Eval evaluates t under a (total) assignment of variables; missing variables read as 0.
// Bool results are 0/1. memo may be nil.
func (t *Term) Eval(m map[string]uint64, memo map[int]uint64) uint64 {
	if memo != nil {
		if v, ok := memo[t.id]; ok {
			return v
		}
	}
	var r uint64
	a := func(i int) uint64 { return t.args[i].Eval(m, memo) }
	b2u := func(b bool) uint64 {
		if b {
			return 1
		}
		return 0
	}
	switch t.op {
	case "const":
		r = t.val
	case "var":
		r = m[t.name] & mask64(t.w)
	case "not":
		r = 1 - a(0)
	case "and":
		r = a(0) & a(1)
	case "or":
		r = a(0) | a(1)
	case "ite":
		if a(0) == 1 {
			r = a(1)
		} else {
			r = a(2)
		}
	case "=":
		r = b2u(a(0) == a(1))
	case "bvult":
		r = b2u(a(0) < a(1))
	case "bvule":
		r = b2u(a(0) <= a(1))
	case "bvslt":
		w := t.args[0].w
		r = b2u(sext(a(0), w) < sext(a(1), w))
	case "bvsle":
		w := t.args[0].w
		r = b2u(sext(a(0), w) <= sext(a(1), w))
	case "bvnot":
		r = ^a(0) & mask(t.w)
	case "bvneg":
		r = (-a(0)) & mask(t.w)
	case "extract":
		r = a(0) & mask(t.w)
	case "zext":
		r = a(0)
	case "sext":
		r = uint64(sext(a(0), t.args[0].w)) & mask(t.w)
	default:
		x, y := a(0), a(1)
		w := t.w
		switch t.op {
		case "bvadd":
			r = x + y
		case "bvsub":
			r = x - y
		case "bvmul":
			r = x * y
		case "bvand":
			r = x & y
		case "bvor":
			r = x | y
		case "bvxor":
			r = x ^ y
		case "bvshl":
			if y >= uint64(w) {
				r = 0
			} else {
				r = x << y
			}
		case "bvlshr":
			if y >= uint64(w) {
				r = 0
			} else {
				r = x >> y
			}
		case "bvashr":
			if y >= uint64(w) {
				y = uint64(w - 1)
			}
			r = uint64(sext(x, w) >> y)
		case "bvudiv":
			if y == 0 {
				r = mask(w)
			} else {
				r = x / y
			}
		case "bvurem":
			if y == 0 {
				r = x
			} else {
				r = x % y
			}
		case "bvsdiv":
			sx, sy := sext(x, w), sext(y, w)
			if sy == 0 {
				if sx >= 0 {
					r = mask(w)
				} else {
					r = 1
				}
			} else if sy == -1 {
				r = uint64(-sx)
			} else {
				r = uint64(sx / sy)
			}
		case "bvsrem":
			sx, sy := sext(x, w), sext(y, w)
			if sy == 0 {
				r = x
			} else if sy == -1 {
				r = 0
			} else {
				r = uint64(sx % sy)
			}
		default:
			panic("Eval: op " + t.op)
		}
		r &= mask(w)
	}
	if memo != nil {
		memo[t.id] = r
	}
	return r
}

func mask64(w int) uint64 {
	if w == 0 {
		return 1
	}
	return mask(w)
}
