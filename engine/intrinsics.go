package main

import (
	"fmt"
	"go/types"
	"strings"

	"golang.org/x/tools/go/ssa"
)

func (in *Interp) mkErr(msg string) Value {
	return Iface{in.errType, Str(msg)}
}

func fieldIndex(t types.Type, name string) int {
	st := t.Underlying().(*types.Struct)
	for i := 0; i < st.NumFields(); i++ {
		if st.Field(i).Name() == name {
			return i
		}
	}
	panic("no field " + name + " in " + t.String())
}

func fmtString(args []Value) Str {
	if len(args) > 0 {
		if s, ok := args[0].(Str); ok {
			return s
		}
	}
	return Str("<fmt>")
}

// intercept implements the environment stubs (DESIGN.md §2.4) and the harness intrinsics.
func (in *Interp) intercept(fn *ssa.Function, name string, args []Value) (Value, bool) {
	// harness intrinsics
	if fn.Pkg != nil && in.targets[fn.Pkg] && strings.HasPrefix(fn.Name(), "verif") {
		if r, ok := in.intrinsic(fn, args); ok {
			return r, true
		}
	}
	// initialisers of packages that are not under test are skipped
	if fn.Name() == "init" && fn.Pkg != nil && !in.targets[fn.Pkg] && fn.Signature.Recv() == nil {
		return nil, true
	}
	switch name {
	case "github.com/pkg/errors.New", "github.com/pkg/errors.Errorf", "errors.New", "fmt.Errorf":
		return in.mkErr(string(fmtString(args))), true
	case "github.com/pkg/errors.Wrapf", "github.com/pkg/errors.Wrap", "github.com/pkg/errors.WithMessage", "github.com/pkg/errors.WithMessagef":
		if e, ok := args[0].(Iface); ok && e.t == nil {
			return Iface{}, true
		}
		return args[0], true // keep identity of the wrapped error (errors.Is / == still work)
	case "github.com/pkg/errors.WithStack":
		return args[0], true
	case "github.com/pkg/errors.Cause", "errors.Unwrap":
		return args[0], true
	case "errors.Is", "github.com/pkg/errors.Is":
		return in.tb.Bool(in.eqConcrete(args[0], args[1])), true
	case "fmt.Sprintf", "fmt.Sprint", "fmt.Sprintln":
		return fmtString(args), true
	case "fmt.Println", "fmt.Printf", "fmt.Print", "fmt.Fprintf", "fmt.Fprintln":
		return Tuple{in.tb.Const(64, 0), Iface{}}, true
	case "math/bits.LeadingZeros64":
		return in.tb.Clz64(args[0].(*Term)), true
	case "math/bits.TrailingZeros64":
		return in.tb.Ctz64(args[0].(*Term)), true
	case "math/bits.LeadingZeros32":
		x := in.tb.Resize(args[0].(*Term), 64, false)
		return in.tb.BV("bvsub", in.tb.Clz64(x), in.tb.Const(64, 32)), true
	case "math/bits.TrailingZeros32":
		x := in.tb.Resize(args[0].(*Term), 64, false)
		r := in.tb.Ctz64(x)
		return in.tb.Ite(in.tb.Cmp("=", x, in.tb.Const(64, 0)), in.tb.Const(64, 32), r), true
	case "math/bits.OnesCount32", "math/bits.OnesCount64", "math/bits.OnesCount":
		x := args[0].(*Term)
		sum := in.tb.Const(64, 0)
		x64 := in.tb.Resize(x, 64, false)
		for i := 0; i < x.w; i++ {
			bit := in.tb.BV("bvand", in.tb.BV("bvlshr", x64, in.tb.Const(64, uint64(i))), in.tb.Const(64, 1))
			sum = in.tb.BV("bvadd", sum, bit)
		}
		return sum, true
	case "math/bits.Len64", "math/bits.Len":
		return in.tb.BV("bvsub", in.tb.Const(64, 64), in.tb.Clz64(args[0].(*Term))), true
	case "math/bits.Len32":
		x := in.tb.Resize(args[0].(*Term), 64, false)
		return in.tb.BV("bvsub", in.tb.Const(64, 64), in.tb.Clz64(x)), true
	case "(*sync.Pool).Get":
		p := args[0].(Ptr)
		pc := p.c.slots[p.i].(*Cont)
		if s := in.sched; s != nil && len(s.threads) > 1 {
			s.acquire(in.thread, pc)
		}
		if l := in.pool[pc]; len(l) > 0 {
			v := l[len(l)-1]
			in.pool[pc] = l[:len(l)-1]
			return v, true
		}
		newf := pc.slots[fieldIndex(fn.Params[0].Type().(*types.Pointer).Elem(), "New")]
		if newf == nil {
			return Iface{}, true
		}
		return in.callValue(newf, nil), true
	case "(*sync.Pool).Put":
		// most-recently-put object is handed out again by the next Get (worst-case aliasing)
		p := args[0].(Ptr)
		pc := p.c.slots[p.i].(*Cont)
		if s := in.sched; s != nil && len(s.threads) > 1 {
			s.release(in.thread, pc)
		}
		in.pool[pc] = append(in.pool[pc], args[1])
		return nil, true
	case "(*sync.Mutex).Lock", "(*sync.Mutex).Unlock", "(*sync.RWMutex).Lock", "(*sync.RWMutex).Unlock",
		"(*sync.RWMutex).RLock", "(*sync.RWMutex).RUnlock":
		return in.mutexOp(fn, args), true
	case "(*sync.Mutex).TryLock":
		return in.tb.Bool(true), true
	case "runtime.KeepAlive", "runtime.SetFinalizer", "runtime.GC":
		return nil, true
	case "unsafe.Pointer":
		return args[0], true
	case "sort.Slice", "sort.SliceStable":
		in.sortSlice(args[0].(Iface).v.(Slice), args[1])
		return nil, true
	}
	switch {
	case strings.HasPrefix(name, "(*github.com/dolthub/swiss.Map["):
		switch {
		case strings.HasSuffix(name, ".Delete"), strings.HasSuffix(name, ".Has"):
			return in.tb.Bool(true), true
		case strings.HasSuffix(name, ".Put"), strings.HasSuffix(name, ".Clear"):
			return nil, true
		}
		panic(abortPath{"unsupported swiss.Map method " + name})
	case strings.HasPrefix(name, "github.com/dolthub/swiss.NewMap["):
		return Ptr{}, true
	case strings.HasPrefix(name, "log/slog."), strings.HasPrefix(name, "(*log/slog."), strings.HasPrefix(name, "(log/slog."):
		return in.slogStub(fn, name, args), true
	case strings.HasPrefix(name, "(*sync/atomic."), strings.HasPrefix(name, "sync/atomic."):
		return in.atomicOp(fn, name, args), true
	case strings.HasPrefix(name, "(*github.com/launchdarkly/go-jsonstream"), strings.HasPrefix(name, "(github.com/launchdarkly/go-jsonstream"),
		strings.HasPrefix(name, "github.com/launchdarkly/go-jsonstream"):
		return in.zeroResults(fn), true
	}
	// String() methods of flag/enum types only feed log and error text
	if fn.Name() == "String" && fn.Signature.Recv() != nil && fn.Signature.Params().Len() == 0 && fn.Signature.Results().Len() == 1 {
		if b, ok := fn.Signature.Results().At(0).Type().Underlying().(*types.Basic); ok && b.Kind() == types.String {
			if _, isBasic := derefType(fn.Signature.Recv().Type()).Underlying().(*types.Basic); isBasic {
				return Str("<" + derefType(fn.Signature.Recv().Type()).String() + ">"), true
			}
		}
	}
	// initialisers of packages that are not under test are skipped
	if fn.Name() == "init" && fn.Pkg != nil && !in.targets[fn.Pkg] && fn.Signature.Recv() == nil {
		return nil, true
	}
	return nil, false
}

func derefType(t types.Type) types.Type {
	if p, ok := t.Underlying().(*types.Pointer); ok {
		return p.Elem()
	}
	return t
}

func (in *Interp) zeroResults(fn *ssa.Function) Value {
	res := fn.Signature.Results()
	switch res.Len() {
	case 0:
		return nil
	case 1:
		return in.zero(res.At(0).Type())
	}
	return in.zero(res)
}

func (in *Interp) slogStub(fn *ssa.Function, name string, args []Value) Value {
	return in.zeroResults(fn)
}

// mutexOp models sync.Mutex / sync.RWMutex as a lock-state machine stored in the mutex's first slot.
// state: 0 free, -1 write-locked, n>0 readers. Self-deadlock and unlock-of-unlocked are reported as panics.
func (in *Interp) mutexOp(fn *ssa.Function, args []Value) Value {
	p := args[0].(Ptr)
	if p.c == nil {
		in.goPanicStr("nil mutex")
	}
	mc := p.c.slots[p.i].(*Cont)
	st, _ := mc.slots[0].(lockState)
	if s := in.sched; s != nil && len(s.threads) > 1 {
		return in.mutexOpConcurrent(fn, mc)
	}
	switch fn.Name() {
	case "Lock":
		if st.n != 0 {
			in.goPanicStr("verif: deadlock: Lock of a locked mutex (sequential execution)")
		}
		st.n = -1
	case "Unlock":
		if st.n != -1 {
			in.goPanicStr("verif: Unlock of a mutex that is not write-locked")
		}
		st.n = 0
	case "RLock":
		if st.n < 0 {
			in.goPanicStr("verif: deadlock: RLock of a write-locked mutex (sequential execution)")
		}
		st.n++
	case "RUnlock":
		if st.n <= 0 {
			in.goPanicStr("verif: RUnlock of a mutex that is not read-locked")
		}
		st.n--
	}
	mc.slots[0] = st
	return nil
}

type lockState struct{ n int }

func (in *Interp) atomicOp(fn *ssa.Function, name string, args []Value) Value {
	if s := in.sched; s != nil && len(s.threads) > 1 {
		if p, ok := args[0].(Ptr); ok && p.c != nil {
			key := p.c
			if sc, isC := p.c.slots[p.i].(*Cont); isC {
				key = sc
			}
			s.point(in.thread)
			s.acquire(in.thread, key)
			defer s.release(in.thread, key)
		}
	}
	return in.atomicOp1(fn, name, args)
}

func (in *Interp) atomicOp1(fn *ssa.Function, name string, args []Value) Value {
	// typed atomics: (*atomic.Int64).Add etc. The value lives in a field named "v" (or "_"+"v").
	recv := fn.Signature.Recv()
	if recv != nil {
		p := args[0].(Ptr)
		if p.c == nil {
			in.goPanicStr("nil atomic")
		}
		st := derefType(recv.Type())
		sc := p.c.slots[p.i].(*Cont)
		vi := fieldIndex(st, "v")
		switch fn.Name() {
		case "Load":
			return sc.slots[vi]
		case "Store":
			sc.slots[vi] = args[1]
			return nil
		case "Add":
			nv := in.tb.BV("bvadd", sc.slots[vi].(*Term), args[1].(*Term))
			sc.slots[vi] = nv
			return nv
		case "Swap":
			old := sc.slots[vi]
			sc.slots[vi] = args[1]
			return old
		case "CompareAndSwap":
			cur := sc.slots[vi]
			var eq bool
			if ct, ok := cur.(*Term); ok {
				eq = in.ex.branch(in.tb.Cmp("=", ct, args[1].(*Term)))
			} else {
				eq = in.eqConcrete(cur, args[1])
			}
			if eq {
				sc.slots[vi] = args[2]
			}
			return in.tb.Bool(eq)
		}
	} else {
		p := args[0].(Ptr)
		switch {
		case strings.HasPrefix(fn.Name(), "Load"):
			return in.load(p)
		case strings.HasPrefix(fn.Name(), "Store"):
			in.store(p, args[1])
			return nil
		case strings.HasPrefix(fn.Name(), "Add"):
			nv := in.tb.BV("bvadd", in.load(p).(*Term), args[1].(*Term))
			in.store(p, nv)
			return nv
		case strings.HasPrefix(fn.Name(), "CompareAndSwap"):
			cur := in.load(p)
			var eq bool
			if ct, ok := cur.(*Term); ok {
				eq = in.ex.branch(in.tb.Cmp("=", ct, args[1].(*Term)))
			} else {
				eq = in.eqConcrete(cur, args[1])
			}
			if eq {
				in.store(p, args[2])
			}
			return in.tb.Bool(eq)
		}
	}
	panic(abortPath{"unsupported atomic op " + name})
}

// sortSlice: insertion sort driven by the user's less closure (stable, deterministic).
func (in *Interp) sortSlice(s Slice, less Value) {
	for i := 1; i < s.len; i++ {
		for j := i; j > 0; j-- {
			r := in.callValue(less, []Value{in.tb.Const(64, uint64(j)), in.tb.Const(64, uint64(j-1))}).(*Term)
			if !in.ex.branch(r) {
				break
			}
			a, b := s.c.slots[s.off+j], s.c.slots[s.off+j-1]
			s.c.slots[s.off+j], s.c.slots[s.off+j-1] = b, a
		}
	}
}

func (in *Interp) intrinsic(fn *ssa.Function, args []Value) (Value, bool) {
	str := func(i int) string { return string(args[i].(Str)) }
	switch fn.Name() {
	case "verifNondetInt", "verifNondetUint", "verifNondetUint64":
		return in.ex.newVar(str(0), 64), true
	case "verifNondetUint32":
		return in.ex.newVar(str(0), 32), true
	case "verifNondetBool":
		return in.ex.newVar(str(0), 0), true
	case "verifAssume":
		if !in.ex.assume(args[0].(*Term)) {
			panic(abortPath{"assume false"})
		}
		return nil, true
	case "verifAssert":
		in.ex.assert(str(0), args[1].(*Term))
		return nil, true
	case "verifAnd":
		return in.tb.And(args[0].(*Term), args[1].(*Term)), true
	case "verifOr":
		return in.tb.Or(args[0].(*Term), args[1].(*Term)), true
	case "verifNot":
		return in.tb.Not(args[0].(*Term)), true
	case "verifImplies":
		return in.tb.Or(in.tb.Not(args[0].(*Term)), args[1].(*Term)), true
	case "verifIte":
		return in.tb.Ite(args[0].(*Term), args[1].(*Term), args[2].(*Term)), true
	case "verifReach":
		in.ex.reach(str(0))
		return nil, true
	case "verifObserve":
		in.ex.observe(str(0), args[1].(*Term), true)
		return nil, true
	case "verifObserveBool":
		in.ex.observe(str(0), args[1].(*Term), false)
		return nil, true
	case "verifChoice":
		n := in.concInt(args[1].(*Term))
		return in.tb.Const(64, uint64(in.ex.choice(str(0), n))), true
	case "verifTier":
		return in.tb.Const(64, uint64(in.tier)), true
	case "verifConcretize":
		t := args[0].(*Term)
		return in.tb.Const(t.w, in.ex.concretize(t)), true
	case "verifIsSymbolic":
		return in.tb.Bool(true), true
	case "verifCatch":
		panicked := false
		func() {
			defer func() {
				if r := recover(); r != nil {
					if gp, ok := r.(goPanic); ok {
						_ = gp
						panicked = true
						return
					}
					panic(r)
				}
			}()
			in.callValue(args[0], nil)
		}()
		return in.tb.Bool(panicked), true
	case "verifGo":
		if in.sched == nil {
			in.sched = newSched(in)
		}
		in.sched.spawn(in, args[0])
		return nil, true
	case "verifJoin":
		if in.sched != nil {
			in.sched.join(in.thread)
			s := in.sched
			if len(s.races) > 0 {
				in.ex.raceNote = s.races[0]
			}
			in.ex.assert("C12/no-data-race", in.tb.Bool(len(s.races) == 0))
			in.ex.assert("C12/no-panic-in-a-goroutine", in.tb.Bool(len(s.childPanic) == 0))
		}
		return nil, true
	case "verifYield":
		return nil, true
	case "verifOp":
		in.ex.job.res.mu.Lock()
		in.ex.job.res.ops++
		in.ex.job.res.mu.Unlock()
		return nil, true
	}
	return nil, false
}

func panicMessage(x goPanic) string {
	switch v := x.v.(type) {
	case Iface:
		if s, ok := v.v.(Str); ok {
			return string(s)
		}
		if v.t != nil {
			return "panic(" + v.t.String() + ")"
		}
	case Str:
		return string(v)
	}
	return fmt.Sprintf("panic(%T)", x.v)
}

// mutexOpConcurrent: blocking semantics with scheduling points and happens-before edges.
func (in *Interp) mutexOpConcurrent(fn *ssa.Function, mc *Cont) Value {
	s, t := in.sched, in.thread
	get := func() lockState { st, _ := mc.slots[0].(lockState); return st }
	wakeWaiters := func() {
		for _, o := range s.threads {
			if o.blocked == mc {
				o.blocked = nil
			}
		}
	}
	s.point(t)
	switch fn.Name() {
	case "Lock":
		for get().n != 0 {
			t.blocked = mc
			s.switchFrom(t, false)
		}
		mc.slots[0] = lockState{-1}
		s.acquire(t, mc)
	case "RLock":
		for get().n < 0 {
			t.blocked = mc
			s.switchFrom(t, false)
		}
		mc.slots[0] = lockState{get().n + 1}
		s.acquire(t, mc)
	case "Unlock":
		if get().n != -1 {
			in.goPanicStr("verif: Unlock of a mutex that is not write-locked")
		}
		mc.slots[0] = lockState{0}
		s.release(t, mc)
		wakeWaiters()
		s.point(t)
	case "RUnlock":
		if get().n <= 0 {
			in.goPanicStr("verif: RUnlock of a mutex that is not read-locked")
		}
		mc.slots[0] = lockState{get().n - 1}
		s.release(t, mc)
		wakeWaiters()
		s.point(t)
	}
	return nil
}
