package main

import (
	"fmt"
	"sort"
)

type Violation struct {
	label string
	model map[string]uint64
	path  []int64
}

type Explorer struct {
	s       *Solver
	prefix  []int64
	pos     int
	cur     []int64
	work    [][]int64
	reach   map[string]int
	viols   map[string]*Violation
	paths   int
	aborted map[string]int
	panics  map[string]int
	vars    []*Term
}

func (e *Explorer) next() (int64, bool) {
	if e.pos < len(e.prefix) {
		v := e.prefix[e.pos]
		e.pos++
		e.cur = append(e.cur, v)
		return v, true
	}
	return 0, false
}

func (e *Explorer) branch(c *Term) bool {
	if c.IsConst() {
		return c.val == 1
	}
	if v, ok := e.next(); ok {
		if v == 1 {
			e.s.Assert(c)
		} else {
			e.s.Assert(Not(c))
		}
		return v == 1
	}
	canT := e.s.CheckWith(c) == "sat"
	canF := e.s.CheckWith(Not(c)) == "sat"
	switch {
	case canT && canF:
		alt := append(append([]int64{}, e.cur...), 0)
		e.work = append(e.work, alt)
		e.cur = append(e.cur, 1)
		e.pos++
		e.s.Assert(c)
		return true
	case canT:
		e.cur = append(e.cur, 1)
		e.pos++
		e.s.Assert(c)
		return true
	case canF:
		e.cur = append(e.cur, 0)
		e.pos++
		e.s.Assert(Not(c))
		return false
	}
	panic(abortPath{"infeasible path"})
}

func (e *Explorer) assume(c *Term) bool {
	if c.IsConst() {
		return c.val == 1
	}
	if e.pos < len(e.prefix) { // replaying: known feasible
		e.s.Assert(c)
		return true
	}
	if e.s.CheckWith(c) != "sat" {
		return false
	}
	e.s.Assert(c)
	return true
}

func (e *Explorer) concretize(t *Term) uint64 {
	for {
		var v uint64
		if pv, ok := e.next(); ok {
			v = uint64(pv)
		} else {
			tmp := Var("conc_tmp", t.w)
			m := e.s.ModelWith(Cmp("=", tmp, t), []*Term{tmp})
			v = m["conc_tmp"]
			e.cur = append(e.cur, int64(v))
			e.pos++
		}
		if e.branch(Cmp("=", t, Const(t.w, v))) {
			return v
		}
	}
}

func (e *Explorer) assert(label string, c *Term) {
	if c.True() {
		return
	}
	if e.pos < len(e.prefix) {
		e.s.Assert(c)
		return
	}
	if c.False() || e.s.CheckWith(Not(c)) == "sat" {
		if _, ok := e.viols[label]; !ok {
			m := e.s.ModelWith(Not(c), e.vars)
			e.viols[label] = &Violation{label, m, append([]int64{}, e.cur...)}
		}
		if c.False() {
			panic(abortPath{"assert false"})
		}
	}
	if e.s.CheckWith(c) != "sat" {
		panic(abortPath{"assert always fails"})
	}
	e.s.Assert(c)
}

func (e *Explorer) report() {
	fmt.Printf("paths=%d queries=%d sat=%d unsat=%d solver=%.2fs terms=%d\n", e.paths, e.s.queries, e.s.sat, e.s.unsat, e.s.dur.Seconds(), termCnt)
	fmt.Println("reach:", e.reach)
	fmt.Println("aborted:", e.aborted)
	fmt.Println("panics:", e.panics)
	var ls []string
	for l := range e.viols {
		ls = append(ls, l)
	}
	sort.Strings(ls)
	for _, l := range ls {
		v := e.viols[l]
		fmt.Printf("VIOLATION label=%s model=%v\n", l, v.model)
	}
}
