package main

import (
	"fmt"
	"sort"
	"sync"
)

// A Job is one harness entry point with one concrete configuration value.
type Job struct {
	Entry string
	Cfg   int
	Tier  int
	Prop  string // property id of the running check; assertions labelled for another property are not evaluated
	res   *JobResult
}

// foreignLabel: the label starts with a property id ("C07...") different from the running check's.
func foreignLabel(label, prop string) bool {
	if prop == "" || prop == "DEV" || len(label) < 3 || label[0] != 'C' {
		return false
	}
	if label[1] < '0' || label[1] > '9' || label[2] < '0' || label[2] > '9' {
		return false
	}
	return label[:3] != prop
}

type NondetVal struct {
	Name string `json:"name"`
	Val  uint64 `json:"val"`
	W    int    `json:"w"`
}

type Obs struct {
	Label string `json:"label"`
	Val   int64  `json:"val"`
}

// PathRecord is a concrete representative of one explored symbolic path.
type PathRecord struct {
	Entry     string      `json:"entry"`
	Cfg       int         `json:"cfg"`
	Tier      int         `json:"tier"`
	Prop      string      `json:"prop,omitempty"` // property the run belongs to: assertions of other properties are skipped
	Nondet    []NondetVal `json:"nondet"`
	Decisions []int64     `json:"decisions,omitempty"`
	// expectations (filled by the engine, compared with the native run)
	FailLabel string   `json:"fail_label,omitempty"` // assertion that must fail natively ("" = none)
	Obs       []Obs    `json:"obs,omitempty"`
	Reach     []string `json:"reach,omitempty"`
	Note      string   `json:"note,omitempty"`
	Outcome   string   `json:"outcome"` // "end", "panic", "assert"
	PanicMsg  string   `json:"panic_msg,omitempty"`
}

type Violation struct {
	Label string
	Recs  []*PathRecord
	Count int
}

type JobResult struct {
	mu        sync.Mutex
	paths     int
	decisions int
	reach     map[string]int
	asserts   map[string]int // label -> number of paths on which it was evaluated
	viols     map[string]*Violation
	aborted   map[string]int
	panics    map[string]int
	panicRecs map[string]*PathRecord
	samples   []*PathRecord
	inconcl   []string
	ops       int
}

func newJobResult() *JobResult {
	return &JobResult{reach: map[string]int{}, asserts: map[string]int{}, viols: map[string]*Violation{},
		aborted: map[string]int{}, panics: map[string]int{}, panicRecs: map[string]*PathRecord{}}
}

type WorkItem struct {
	job     *Job
	prefix  []int64
	witness map[string]uint64 // a model of the path condition reached after replaying prefix (may be nil)
}

// WorkQueue is a shared LIFO of pending path prefixes.
type WorkQueue struct {
	mu      sync.Mutex
	cond    *sync.Cond
	items   []WorkItem
	busy    int
	stopped bool
}

func NewWorkQueue() *WorkQueue {
	q := &WorkQueue{}
	q.cond = sync.NewCond(&q.mu)
	return q
}

func (q *WorkQueue) Push(it WorkItem) {
	q.mu.Lock()
	q.items = append(q.items, it)
	q.mu.Unlock()
	q.cond.Signal()
}

// Pop blocks until an item is available or all workers are idle with an empty queue.
func (q *WorkQueue) Pop() (WorkItem, bool) {
	q.mu.Lock()
	defer q.mu.Unlock()
	for {
		if q.stopped {
			return WorkItem{}, false
		}
		if n := len(q.items); n > 0 {
			it := q.items[n-1]
			q.items = q.items[:n-1]
			q.busy++
			return it, true
		}
		if q.busy == 0 {
			q.cond.Broadcast()
			return WorkItem{}, false
		}
		q.cond.Wait()
	}
}

func (q *WorkQueue) Done() {
	q.mu.Lock()
	q.busy--
	idle := q.busy == 0 && len(q.items) == 0
	q.mu.Unlock()
	if idle {
		q.cond.Broadcast()
	}
}

func (q *WorkQueue) Stop() {
	q.mu.Lock()
	q.stopped = true
	q.mu.Unlock()
	q.cond.Broadcast()
}

func (q *WorkQueue) Len() int {
	q.mu.Lock()
	defer q.mu.Unlock()
	return len(q.items)
}

// Explorer drives one path at a time for one worker.
type Explorer struct {
	tb  *TB
	s   *Solver
	q   *WorkQueue
	job *Job

	prefix []int64
	pos    int
	cur    []int64

	vars    []*Term
	inputs  []inputRec
	witness map[string]uint64
	memo    map[int]uint64

	stats    map[string]*[3]int // per source position: queries answered sat / unsat / skipped (VERIF_STATS)
	curSite  string
	initW    map[string]uint64
	pending  []pendingAssert
	raceNote string
	rng      *Ranges
	skipped  int
	known    map[int]bool // term ids asserted on this path (true) / whose negation was asserted (false)
	obs      []obsTerm
	reached  []string
	asserted map[string]bool
	failed   string // first failed assertion label on this path (for records)
	maxViol  int
}

type pendingAssert struct {
	label string
	c     *Term
}

type inputRec struct {
	name string
	v    *Term // nil for a concrete choice
	cval uint64
}

type obsTerm struct {
	label  string
	t      *Term
	signed bool
}

func (e *Explorer) startPath(it WorkItem) {
	e.job = it.job
	e.prefix, e.pos, e.cur = it.prefix, 0, make([]int64, 0, len(it.prefix)+16)
	e.vars, e.inputs = nil, nil
	e.witness, e.memo = nil, nil
	e.initW = it.witness
	e.pending = nil
	e.obs, e.reached = nil, nil
	e.asserted = map[string]bool{}
	e.failed = ""
	e.known = map[int]bool{}
	e.rng = newRanges()
	e.s.Reset()
}

func (e *Explorer) replaying() bool { return e.pos < len(e.prefix) }

func (e *Explorer) next() int64 {
	v := e.prefix[e.pos]
	e.pos++
	e.cur = append(e.cur, v)
	return v
}

func (e *Explorer) decide(v int64) {
	e.cur = append(e.cur, v)
	e.pos++
}

func (e *Explorer) inconclusive(why string) {
	r := e.job.res
	r.mu.Lock()
	if len(r.inconcl) < 20 {
		r.inconcl = append(r.inconcl, why)
	}
	r.mu.Unlock()
}

// ensureWitness makes sure e.witness satisfies the asserted path condition.
func (e *Explorer) ensureWitness() {
	if e.witness != nil {
		return
	}
	if e.initW != nil {
		e.witness, e.initW = e.initW, nil
		e.memo = map[int]uint64{}
		return
	}
	r, m := e.s.Check(e.tb.Bool(true), e.vars)
	switch r {
	case "sat":
		e.witness = m
		if e.witness == nil {
			e.witness = map[string]uint64{}
		}
		e.memo = map[int]uint64{}
	case "unsat":
		panic(abortPath{"infeasible prefix"})
	default:
		e.inconclusive("unknown while obtaining witness")
		panic(abortPath{"solver unknown"})
	}
}

func (e *Explorer) evalW(t *Term) uint64 {
	e.ensureWitness()
	return t.Eval(e.witness, e.memo)
}

func (e *Explorer) setWitness(m map[string]uint64) {
	e.witness = m
	e.memo = map[int]uint64{}
}

func (e *Explorer) newVar(name string, w int) *Term {
	v := e.tb.Var(fmt.Sprintf("n%d_%s", len(e.vars), sanitize(name)), w)
	e.vars = append(e.vars, v)
	e.inputs = append(e.inputs, inputRec{name: name, v: v})
	// a fresh variable is unconstrained: any value extends the witness; 0 is used.
	return v
}

func sanitize(s string) string {
	b := []byte(s)
	for i, c := range b {
		if !(c >= 'a' && c <= 'z' || c >= 'A' && c <= 'Z' || c >= '0' && c <= '9' || c == '_') {
			b[i] = '_'
		}
	}
	return string(b)
}

func (e *Explorer) branch(c *Term) bool {
	if c.IsConst() {
		return c.val == 1
	}
	if e.replaying() {
		v := e.next()
		if _, ok := e.known[c.id]; !ok && e.rng.tri(c) < 0 {
			if v == 1 {
				e.s.Assert(c)
			} else {
				e.s.Assert(e.tb.Not(c))
			}
			e.note(c, v == 1)
		}
		return v == 1
	}
	e.flush()
	if kv, ok := e.known[c.id]; ok { // decided syntactically by an earlier assertion of the same term
		if kv {
			e.decide(1)
		} else {
			e.decide(0)
		}
		return kv
	}
	if tv := e.rng.tri(c); tv >= 0 { // decided by interval reasoning over the path condition
		e.skipped++
		e.decide(int64(tv))
		return tv == 1
	}
	dir := e.evalW(c) == 1
	var other *Term
	if dir {
		other = e.tb.Not(c)
	} else {
		other = c
	}
	r, altModel := e.s.Check(other, e.vars)
	if e.stats != nil {
		st := e.stats[e.curSite]
		if st == nil {
			st = &[3]int{}
			e.stats[e.curSite] = st
		}
		if r == "sat" {
			st[0]++
		} else {
			st[1]++
		}
		e.curSite = "(non-if)"
	}
	if r == "unknown" {
		e.inconclusive("unknown at branch")
		r = "sat" // over-approximate: keep the branch
	}
	if r == "sat" {
		alt := make([]int64, len(e.cur)+1)
		copy(alt, e.cur)
		if dir {
			alt[len(e.cur)] = 0
		} else {
			alt[len(e.cur)] = 1
		}
		e.q.Push(WorkItem{e.job, alt, altModel})
	}
	if dir {
		e.decide(1)
		e.s.Assert(c)
	} else {
		e.decide(0)
		e.s.Assert(e.tb.Not(c))
	}
	e.note(c, dir)
	return dir
}

func (e *Explorer) note(c *Term, v bool) {
	e.rng.assume(c, v)
	e.known[c.id] = v
	if c.op == "not" {
		e.known[c.args[0].id] = !v
	}
}

func (e *Explorer) assume(c *Term) bool {
	if c.IsConst() {
		return c.val == 1
	}
	if e.rng.tri(c) == 1 {
		return true
	}
	if e.replaying() {
		e.s.Assert(c)
		e.note(c, true)
		return true
	}
	e.flush()
	if e.evalW(c) == 1 {
		e.s.Assert(c)
		e.note(c, true)
		return true
	}
	r, m := e.s.Check(c, e.vars)
	switch r {
	case "sat":
		e.s.Assert(c)
		e.note(c, true)
		e.setWitness(m)
		return true
	case "unknown":
		e.inconclusive("unknown at assume")
	}
	return false
}

// choice returns a concrete value in [0,n); every value is explored.
func (e *Explorer) choice(name string, n int) int {
	v := e.choice1(n)
	e.inputs = append(e.inputs, inputRec{name: name, cval: uint64(v)})
	return v
}

func (e *Explorer) choice1(n int) int {
	if n <= 1 {
		return 0
	}
	e.flush()
	if e.replaying() {
		return int(e.next())
	}
	for v := n - 1; v >= 1; v-- {
		alt := make([]int64, len(e.cur)+1)
		copy(alt, e.cur)
		alt[len(e.cur)] = int64(v)
		e.q.Push(WorkItem{e.job, alt, e.witness})
	}
	e.decide(0)
	return 0
}

// concretize picks a feasible concrete value for t; every feasible value is explored on some path.
func (e *Explorer) concretize(t *Term) uint64 {
	if t.IsConst() {
		return t.val
	}
	for {
		var v uint64
		if e.replaying() {
			v = uint64(e.next())
		} else {
			v = e.evalW(t)
			e.decide(int64(v))
		}
		if e.branch(e.tb.Cmp("=", t, e.tb.Const(t.w, v))) {
			return v
		}
	}
}

func (e *Explorer) record(outcome, panicMsg string) *PathRecord {
	rec := &PathRecord{Entry: e.job.Entry, Cfg: e.job.Cfg, Tier: e.job.Tier, Prop: e.job.Prop, Outcome: outcome, PanicMsg: panicMsg, FailLabel: e.failed}
	if e.failed == "C12/no-data-race" {
		rec.Note = e.raceNote
	}
	e.ensureWitness()
	for _, ir := range e.inputs {
		if ir.v == nil {
			rec.Nondet = append(rec.Nondet, NondetVal{ir.name, ir.cval, 64})
		} else {
			rec.Nondet = append(rec.Nondet, NondetVal{ir.name, e.witness[ir.v.name] & mask64(ir.v.w), ir.v.w})
		}
	}
	for _, o := range e.obs {
		x := o.t.Eval(e.witness, e.memo)
		var sv int64
		if o.t.w == 0 {
			sv = int64(x)
		} else if o.signed {
			sv = sext(x, o.t.w)
		} else {
			sv = int64(x)
		}
		rec.Obs = append(rec.Obs, Obs{o.label, sv})
	}
	rec.Reach = append([]string{}, e.reached...)
	rec.Decisions = append([]int64{}, e.cur...)
	return rec
}

func (e *Explorer) assert(label string, c *Term) {
	if foreignLabel(label, e.job.Prop) {
		return
	}
	res := e.job.res
	if !e.asserted[label] {
		e.asserted[label] = true
		res.mu.Lock()
		res.asserts[label]++
		res.mu.Unlock()
	}
	if c.True() {
		return
	}
	if e.replaying() {
		e.s.Assert(c)
		e.note(c, true)
		return
	}
	if e.rng.tri(c) == 1 {
		return
	}
	// assertions are checked lazily, several at a time, at the next decision point or at the end of the path
	e.pending = append(e.pending, pendingAssert{label, c})
	if c.False() {
		e.flush()
	}
}

// flush decides all pending assertions with one query (their conjunction), records violations and then
// continues the path under the assumption that they hold.
func (e *Explorer) flush() {
	if len(e.pending) == 0 {
		return
	}
	ps := e.pending
	e.pending = nil
	conj := e.tb.Bool(true)
	for _, p := range ps {
		conj = e.tb.And(conj, p.c)
	}
	violated := false
	if conj.False() || e.evalW(conj) == 0 {
		violated = true
	} else {
		r, m := e.s.Check(e.tb.Not(conj), e.vars)
		switch r {
		case "sat":
			violated = true
			e.setWitness(m)
		case "unknown":
			e.inconclusive("unknown at assert " + ps[0].label)
		}
	}
	if violated {
		res := e.job.res
		for _, p := range ps {
			if !p.c.False() && e.evalW(p.c) == 1 {
				continue
			}
			save := e.failed
			e.failed = p.label
			rec := e.record("assert", "")
			e.failed = save
			res.mu.Lock()
			v := res.viols[p.label]
			if v == nil {
				v = &Violation{Label: p.label}
				res.viols[p.label] = v
			}
			v.Count++
			if len(v.Recs) < 3 {
				v.Recs = append(v.Recs, rec)
			}
			res.mu.Unlock()
		}
		if conj.False() {
			panic(abortPath{"assert false"})
		}
		// continue the path under the assumption that the assertions held
		r, m := e.s.Check(conj, e.vars)
		switch r {
		case "sat":
			e.setWitness(m)
		case "unsat":
			panic(abortPath{"assert always fails"})
		default:
			e.inconclusive("unknown after assert " + ps[0].label)
			panic(abortPath{"solver unknown"})
		}
	}
	for _, p := range ps {
		e.s.Assert(p.c)
		e.note(p.c, true)
	}
}

func (e *Explorer) reach(label string) {
	e.reached = append(e.reached, label)
}

func (e *Explorer) observe(label string, t *Term, signed bool) {
	e.obs = append(e.obs, obsTerm{label, t, signed})
}

// finishPath records the outcome of a completed path.
func (e *Explorer) finishPath(outcome, msg string, sampleCap int) {
	res := e.job.res
	var rec *PathRecord
	res.mu.Lock()
	need := len(res.samples) < sampleCap
	needPanic := outcome == "panic" && res.panicRecs[msg] == nil
	res.mu.Unlock()
	if (need || needPanic) && (outcome == "end" || outcome == "panic") {
		func() {
			defer func() {
				if r := recover(); r != nil {
					if _, ok := r.(abortPath); !ok {
						panic(r)
					}
				}
			}()
			rec = e.record(outcome, msg)
		}()
	}
	res.mu.Lock()
	res.paths++
	res.decisions += len(e.cur)
	switch outcome {
	case "end":
		for _, l := range e.reached {
			res.reach[l]++
		}
		if rec != nil && len(res.samples) < sampleCap {
			res.samples = append(res.samples, rec)
		}
	case "panic":
		res.panics[msg]++
		if rec != nil && res.panicRecs[msg] == nil {
			res.panicRecs[msg] = rec
		}
	default:
		res.aborted[msg]++
	}
	res.mu.Unlock()
}

func sortedKeys[V any](m map[string]V) []string {
	ks := make([]string, 0, len(m))
	for k := range m {
		ks = append(ks, k)
	}
	sort.Strings(ks)
	return ks
}
