package main

import (
	"bufio"
	"fmt"
	"io"
	"os"
	"os/exec"
	"strings"
	"time"
)

type Solver struct {
	cmd     *exec.Cmd
	in      io.WriteCloser
	out     *bufio.Reader
	decl    map[string]bool
	queries int
	sat     int
	unsat   int
	dur     time.Duration
	depth   int
}

func NewSolver() *Solver {
	cmd := exec.Command("z3", "-in", "-smt2")
	in, _ := cmd.StdinPipe()
	out, _ := cmd.StdoutPipe()
	if err := cmd.Start(); err != nil {
		panic(err)
	}
	s := &Solver{cmd: cmd, in: in, out: bufio.NewReader(out), decl: map[string]bool{}}
	s.send("(set-option :timeout 60000)")
	return s
}
var lineStack = [][]string{{}}
var dumpN int

func (s *Solver) send(l string) {
	io.WriteString(s.in, l+"\n")
	if strings.HasPrefix(l, "(push") {
		lineStack = append(lineStack, []string{})
	} else if strings.HasPrefix(l, "(pop") {
		lineStack = lineStack[:len(lineStack)-1]
	} else if !strings.HasPrefix(l, "(check-sat") && !strings.HasPrefix(l, "(get-value") {
		lineStack[len(lineStack)-1] = append(lineStack[len(lineStack)-1], l)
	}
}
func dumpScript(extra string) {
	dumpN++
	if dumpN > 3 {
		return
	}
	f, _ := os.Create(fmt.Sprintf("slow%d.smt2", dumpN))
	for _, lv := range lineStack {
		for _, l := range lv {
			if !strings.HasPrefix(l, "(set-option") {
				fmt.Fprintln(f, l)
			}
		}
	}
	fmt.Fprintln(f, extra)
	fmt.Fprintln(f, "(check-sat)")
	f.Close()
}
func (s *Solver) readLine() string {
	l, err := s.out.ReadString('\n')
	if err != nil {
		panic("solver died: " + err.Error())
	}
	return strings.TrimSpace(l)
}

// declare all vars in t (global, outside push/pop since declared before first push)
func (s *Solver) declare(t *Term) {
	seen := map[int]bool{}
	var rec func(t *Term)
	rec = func(t *Term) {
		if seen[t.id] {
			return
		}
		seen[t.id] = true
		if t.op == "var" && !s.decl[t.name] {
			s.decl[t.name] = true
			if t.w == 0 {
				s.send(fmt.Sprintf("(declare-const %s Bool)", t.name))
			} else {
				s.send(fmt.Sprintf("(declare-const %s (_ BitVec %d))", t.name, t.w))
			}
		}
		for _, a := range t.args {
			rec(a)
		}
	}
	rec(t)
}

// Vars must be declared at depth 0 to survive pops; we pre-declare lazily by popping? Simpler: declare in
// current scope and forget declarations on pop.
type scope struct{ declared []string }

var scopes []scope

func (s *Solver) Push() {
	s.send("(push 1)")
	s.depth++
	scopes = append(scopes, scope{})
	defScopes = append(defScopes, defScope{})
}
func (s *Solver) Pop() {
	s.send("(pop 1)")
	s.depth--
	sc := scopes[len(scopes)-1]
	scopes = scopes[:len(scopes)-1]
	for _, n := range sc.declared {
		delete(s.decl, n)
	}
	ds := defScopes[len(defScopes)-1]
	defScopes = defScopes[:len(defScopes)-1]
	for _, id := range ds.ids {
		delete(defined, id)
	}
}
func (s *Solver) declareScoped(t *Term) {
	before := map[string]bool{}
	for k := range s.decl {
		before[k] = true
	}
	s.declare(t)
	if len(scopes) > 0 {
		for k := range s.decl {
			if !before[k] {
				scopes[len(scopes)-1].declared = append(scopes[len(scopes)-1].declared, k)
			}
		}
	}
}
var defined = map[int]string{}

type defScope struct{ ids []int }

var defScopes []defScope

// ref returns an SMT expression naming t; non-leaf terms are introduced once per scope with define-fun.
func (s *Solver) ref(t *Term) string {
	if t.op == "const" {
		return t.SMT()
	}
	if t.op == "var" {
		if !s.decl[t.name] {
			s.declareScoped(t)
		}
		return t.name
	}
	if n, ok := defined[t.id]; ok {
		return n
	}
	parts := make([]string, len(t.args))
	for i, a := range t.args {
		parts[i] = s.ref(a)
	}
	var body string
	switch t.op {
	case "extract":
		body = fmt.Sprintf("((_ extract %d 0) %s)", t.val, parts[0])
	case "sext":
		body = fmt.Sprintf("((_ sign_extend %d) %s)", t.val, parts[0])
	case "zext":
		body = fmt.Sprintf("((_ zero_extend %d) %s)", t.val, parts[0])
	default:
		body = "(" + t.op + " " + strings.Join(parts, " ") + ")"
	}
	name := fmt.Sprintf("t%d", t.id)
	sort := "Bool"
	if t.w > 0 {
		sort = fmt.Sprintf("(_ BitVec %d)", t.w)
	}
	s.send(fmt.Sprintf("(define-fun %s () %s %s)", name, sort, body))
	defined[t.id] = name
	if len(defScopes) > 0 {
		defScopes[len(defScopes)-1].ids = append(defScopes[len(defScopes)-1].ids, t.id)
	}
	return name
}

func (s *Solver) Assert(t *Term) {
	s.send("(assert " + s.ref(t) + ")")
}

// CheckWith: is pc ∧ extra satisfiable?
func (s *Solver) CheckWith(extra *Term) string {
	t0 := time.Now()
	s.Push()
	s.Assert(extra)
	s.send("(check-sat)")
	r := s.readLine()
	if time.Since(t0) > 400*time.Millisecond {
		dumpScript("")
	}
	s.Pop()
	s.queries++
	s.dur += time.Since(t0)
	if d := time.Since(t0); d > 500*time.Millisecond {
		fmt.Printf("SLOW query %.2fs result=%s q#%d extra=%s\n", d.Seconds(), r, s.queries, "-")
	}
	switch r {
	case "sat":
		s.sat++
	case "unsat":
		s.unsat++
	default:
		panic("solver said: " + r)
	}
	return r
}

// Model for current assertions + extra, for given vars
func (s *Solver) ModelWith(extra *Term, vars []*Term) map[string]uint64 {
	t0 := time.Now()
	defer func() {
		if d := time.Since(t0); d > 400*time.Millisecond {
			fmt.Printf("SLOW model %.2fs\n", d.Seconds())
		}
		s.dur += time.Since(t0)
	}()
	s.Push()
	s.Assert(extra)
	for _, v := range vars {
		s.declareScoped(v)
	}
	s.send("(check-sat)")
	r := s.readLine()
	res := map[string]uint64{}
	if time.Since(t0) > 400*time.Millisecond {
		dumpScript("")
	}
	if r == "sat" {
		for _, v := range vars {
			s.send("(get-value (" + v.name + "))")
			l := s.readLine()
			// ((name #x...)) or ((name #b...)) or ((name true))
			l = strings.TrimSuffix(strings.TrimPrefix(l, "(("), "))")
			parts := strings.SplitN(l, " ", 2)
			val := parts[1]
			var x uint64
			if strings.HasPrefix(val, "#x") {
				fmt.Sscanf(val[2:], "%x", &x)
			} else if strings.HasPrefix(val, "#b") {
				fmt.Sscanf(val[2:], "%b", &x)
			} else if val == "true" {
				x = 1
			}
			res[v.name] = x
		}
	}
	s.Pop()
	return res
}

func trunc(s string, n int) string {
	if len(s) > n {
		return s[:n] + "..."
	}
	return s
}

func (s *Solver) Reset() {
	s.send("(reset)")
	s.send("(set-option :timeout 60000)")
	s.decl = map[string]bool{}
	defined = map[int]string{}
	scopes = nil
	defScopes = nil
	lineStack = [][]string{{}}
	s.depth = 0
}
