package main

import (
	"bufio"
	"fmt"
	"io"
	"os"
	"os/exec"
	"strings"
	"time"
)

// Solver is one persistent SMT solver process (z3 -in by default). Not safe for concurrent use;
// every worker owns one.
type Solver struct {
	bin         []string
	cmd         *exec.Cmd
	in          io.WriteCloser
	out         *bufio.Reader
	decl        map[string]bool
	defined     map[int]string
	scopes      []scopeRec
	assertedIDs map[int]bool
	useCores    bool
	coreCache   map[int][][]int // extra-term id -> unsat cores (ids of asserted terms); a query whose path condition contains a core is unsat
	coreHits    int
	coreStored  int
	lines       [][]string // asserted/declared lines per scope level (for self-contained dumps)
	timeoutMs   int
	logic       string
	oneShot     bool // every query is sent as a fresh script after (reset): z3 then uses its tactic pipeline, not the incremental core

	queries, nsat, nunsat, nunknown int
	nfallback                       int
	dur                             time.Duration
	slowest                         time.Duration

	sampleEvery int
	samples     []querySample
	errs        []string
}

type scopeRec struct {
	declared []string
	defs     []int
}

type querySample struct {
	script string
	result string
}

func NewSolver(bin []string, timeoutMs int) *Solver {
	s := &Solver{bin: bin, timeoutMs: timeoutMs, oneShot: os.Getenv("VERIF_INCREMENTAL") == "", coreCache: map[int][][]int{}}
	s.useCores = s.oneShot && os.Getenv("VERIF_CORES") != "" // measured: produce-unsat-cores makes z3 4-5x slower per query; off by default
	s.start()
	return s
}

func (s *Solver) start() {
	cmd := exec.Command(s.bin[0], s.bin[1:]...)
	in, _ := cmd.StdinPipe()
	out, _ := cmd.StdoutPipe()
	cmd.Stderr = nil
	if err := cmd.Start(); err != nil {
		panic(err)
	}
	s.cmd, s.in, s.out = cmd, in, bufio.NewReaderSize(out, 1<<16)
	s.resetState()
	s.raw(fmt.Sprintf("(set-option :timeout %d)", s.timeoutMs))
}

func (s *Solver) Close() {
	if s.cmd != nil {
		s.in.Close()
		s.cmd.Process.Kill()
		s.cmd.Wait()
		s.cmd = nil
	}
}

func (s *Solver) resetState() {
	s.decl = map[string]bool{}
	s.defined = map[int]string{}
	s.scopes = nil
	s.lines = [][]string{{}}
	s.assertedIDs = map[int]bool{}
}

func (s *Solver) raw(l string) { io.WriteString(s.in, l+"\n") }

func (s *Solver) send(l string) {
	if !s.oneShot {
		s.raw(l)
	}
	s.lines[len(s.lines)-1] = append(s.lines[len(s.lines)-1], l)
}

func (s *Solver) readLine() string {
	l, err := s.out.ReadString('\n')
	if err != nil {
		panic("solver died: " + err.Error())
	}
	return strings.TrimSpace(l)
}

// readSexp reads one balanced s-expression (possibly spanning lines).
func (s *Solver) readSexp() string {
	var sb strings.Builder
	depth := 0
	started := false
	for {
		l := s.readLine()
		sb.WriteString(l)
		sb.WriteByte(' ')
		for _, c := range l {
			if c == '(' {
				depth++
				started = true
			} else if c == ')' {
				depth--
			}
		}
		if (started && depth <= 0) || (!started && l != "") {
			return sb.String()
		}
	}
}

func (s *Solver) Reset() {
	if !s.oneShot {
		s.raw("(reset)")
		s.raw(fmt.Sprintf("(set-option :timeout %d)", s.timeoutMs))
		if l := os.Getenv("VERIF_LOGIC"); l != "" {
			s.raw("(set-logic " + l + ")")
		}
	}
	s.resetState()
}

func (s *Solver) Push() {
	if !s.oneShot {
		s.raw("(push 1)")
	}
	s.scopes = append(s.scopes, scopeRec{})
	s.lines = append(s.lines, []string{})
}

func (s *Solver) Pop() {
	if !s.oneShot {
		s.raw("(pop 1)")
	}
	sc := s.scopes[len(s.scopes)-1]
	s.scopes = s.scopes[:len(s.scopes)-1]
	for _, n := range sc.declared {
		delete(s.decl, n)
	}
	for _, id := range sc.defs {
		delete(s.defined, id)
	}
	s.lines = s.lines[:len(s.lines)-1]
}

func sortOf(w int) string {
	if w == 0 {
		return "Bool"
	}
	return fmt.Sprintf("(_ BitVec %d)", w)
}

func (s *Solver) declareVar(t *Term) {
	if s.decl[t.name] {
		return
	}
	s.decl[t.name] = true
	s.send(fmt.Sprintf("(declare-const %s %s)", t.name, sortOf(t.w)))
	if n := len(s.scopes); n > 0 {
		s.scopes[n-1].declared = append(s.scopes[n-1].declared, t.name)
	}
}

// ref returns an SMT expression naming t; non-leaf terms are introduced once per scope with define-fun.
func (s *Solver) ref(t *Term) string {
	switch t.op {
	case "const":
		return t.SMT()
	case "var":
		s.declareVar(t)
		return t.name
	}
	if n, ok := s.defined[t.id]; ok {
		return n
	}
	parts := make([]string, len(t.args))
	for i, a := range t.args {
		parts[i] = s.ref(a)
	}
	var body string
	switch t.op {
	case "extract":
		body = fmt.Sprintf("((_ extract %d 0) %s)", t.val, parts[0])
	case "sext":
		body = fmt.Sprintf("((_ sign_extend %d) %s)", t.val, parts[0])
	case "zext":
		body = fmt.Sprintf("((_ zero_extend %d) %s)", t.val, parts[0])
	default:
		body = "(" + t.op + " " + strings.Join(parts, " ") + ")"
	}
	name := fmt.Sprintf("t%d", t.id)
	s.send(fmt.Sprintf("(define-fun %s () %s %s)", name, sortOf(t.w), body))
	s.defined[t.id] = name
	if n := len(s.scopes); n > 0 {
		s.scopes[n-1].defs = append(s.scopes[n-1].defs, t.id)
	}
	return name
}

func (s *Solver) Assert(t *Term) {
	if t.True() {
		return
	}
	if len(s.scopes) == 0 {
		if s.assertedIDs[t.id] {
			return
		}
		s.assertedIDs[t.id] = true
		if s.useCores {
			s.send(fmt.Sprintf("(assert (! %s :named a%d))", s.ref(t), t.id))
			return
		}
	}
	s.send("(assert " + s.ref(t) + ")")
}

func (s *Solver) cachedUnsat(extra *Term) bool {
	for _, core := range s.coreCache[extra.id] {
		ok := true
		for _, id := range core {
			if !s.assertedIDs[id] {
				ok = false
				break
			}
		}
		if ok {
			return true
		}
	}
	return false
}

func (s *Solver) script() string {
	var sb strings.Builder
	for _, lv := range s.lines {
		for _, l := range lv {
			sb.WriteString(l)
			sb.WriteByte('\n')
		}
	}
	sb.WriteString("(check-sat)\n")
	if s.logic != "" {
		return "(set-logic " + s.logic + ")\n" + sb.String()
	}
	return sb.String()
}

// Check decides satisfiability of (asserted ∧ extra). If vars != nil and the answer is sat,
// the model restricted to vars is returned.
func (s *Solver) Check(extra *Term, vars []*Term) (string, map[string]uint64) {
	if s.useCores && len(s.scopes) == 0 && s.cachedUnsat(extra) {
		s.coreHits++
		return "unsat", nil
	}
	t0 := time.Now()
	s.Push()
	s.Assert(extra)
	for _, v := range vars {
		s.declareVar(v)
	}
	if s.oneShot {
		var sb strings.Builder
		sb.WriteString("(reset)\n")
		fmt.Fprintf(&sb, "(set-option :timeout %d)\n", s.timeoutMs)
		if s.useCores {
			sb.WriteString("(set-option :produce-unsat-cores true)\n")
		}
		if s.logic != "" {
			sb.WriteString("(set-logic " + s.logic + ")\n")
		}
		for _, lv := range s.lines {
			for _, l := range lv {
				sb.WriteString(l)
				sb.WriteByte('\n')
			}
		}
		sb.WriteString("(check-sat)")
		s.raw(sb.String())
	} else {
		s.raw("(check-sat)")
	}
	r := s.readLine()
	for strings.HasPrefix(r, "(error") || strings.HasPrefix(r, "unsupported") {
		s.errs = append(s.errs, r)
		r = "unknown"
		break
	}
	s.queries++
	if s.sampleEvery > 0 && s.queries%s.sampleEvery == 0 && (r == "sat" || r == "unsat") {
		s.samples = append(s.samples, querySample{s.script(), r})
	}
	if r != "sat" && r != "unsat" && s.oneShot {
		// the primary solver gave up (time-out): the same self-contained script goes to the other solvers
		if fr, fm, ok := s.fallback(vars); ok {
			s.nfallback++
			s.Pop()
			if fr == "sat" {
				s.nsat++
			} else {
				s.nunsat++
			}
			s.dur += time.Since(t0)
			return fr, fm
		}
	}
	var model map[string]uint64
	switch r {
	case "sat":
		s.nsat++
		if len(vars) > 0 {
			model = s.getValues(vars)
		}
	case "unsat":
		s.nunsat++
		if s.useCores && len(s.scopes) == 1 {
			s.storeCore(extra)
		}
	default:
		s.nunknown++
		r = "unknown"
	}
	s.Pop()
	d := time.Since(t0)
	if dir := os.Getenv("VERIF_DUMP_SLOW"); dir != "" && (d > 3*time.Second || (os.Getenv("VERIF_DUMP_ALL") != "" && s.queries%20 == 0)) {
		s.Push()
		s.Assert(extra)
		os.WriteFile(fmt.Sprintf("%s/slow-%d-%d-%s.smt2", dir, os.Getpid(), s.queries, r), []byte(s.script()), 0o644)
		s.Pop()
	}
	s.dur += d
	if d > s.slowest {
		s.slowest = d
	}
	if r == "unknown" {
		// a timed-out z3 may be in a bad state; restart it lazily by the caller's next Reset.
	}
	return r, model
}

// fallback re-decides the current query (path condition + pushed extra) with z3 5.1.0 and then cvc5.
func (s *Solver) fallback(vars []*Term) (string, map[string]uint64, bool) {
	script := s.script()
	if len(vars) > 0 {
		names := make([]string, len(vars))
		for i, v := range vars {
			names[i] = v.name
		}
		script += "(get-value (" + strings.Join(names, " ") + "))\n"
	}
	for _, bin := range [][]string{{"z3-new", "-in", "-smt2", "-T:120"}, {"cvc5", "--lang=smt2", "--produce-models", "--tlimit=120000"}} {
		cmd := exec.Command(bin[0], bin[1:]...)
		cmd.Stdin = strings.NewReader(script)
		out, _ := cmd.Output()
		txt := strings.TrimSpace(string(out))
		first := txt
		rest := ""
		if i := strings.Index(txt, "\n"); i >= 0 {
			first, rest = strings.TrimSpace(txt[:i]), txt[i+1:]
		}
		switch first {
		case "unsat":
			return "unsat", nil, true
		case "sat":
			m := map[string]uint64{}
			if len(vars) > 0 {
				if strings.Contains(rest, "(error") {
					continue
				}
				m = parseValues(rest)
			}
			return "sat", m, true
		}
	}
	return "", nil, false
}

// storeCore asks for the unsat core of the query just answered and caches it under the extra term.
func (s *Solver) storeCore(extra *Term) {
	s.raw("(get-unsat-core)")
	out := s.readSexp()
	if strings.HasPrefix(out, "(error") {
		return
	}
	out = strings.NewReplacer("(", " ", ")", " ").Replace(out)
	var core []int
	for _, f := range strings.Fields(out) {
		if !strings.HasPrefix(f, "a") {
			return
		}
		var id int
		if _, err := fmt.Sscanf(f[1:], "%d", &id); err != nil {
			return
		}
		if !s.assertedIDs[id] {
			return // a name that is not a path-condition assertion (the extra term is asserted unnamed)
		}
		core = append(core, id)
	}
	if len(core) > 24 {
		return
	}
	l := s.coreCache[extra.id]
	if len(l) >= 12 {
		l = l[1:]
	}
	s.coreCache[extra.id] = append(l, core)
	s.coreStored++
}

func (s *Solver) getValues(vars []*Term) map[string]uint64 {
	names := make([]string, len(vars))
	for i, v := range vars {
		names[i] = v.name
	}
	s.raw("(get-value (" + strings.Join(names, " ") + "))")
	out := s.readSexp()
	if strings.HasPrefix(out, "(error") {
		s.errs = append(s.errs, out)
		return map[string]uint64{}
	}
	return parseValues(out)
}

func parseValues(out string) map[string]uint64 {
	res := map[string]uint64{}
	// tokens: ((name val) (name val) ...)
	out = strings.NewReplacer("(", " ", ")", " ").Replace(out)
	f := strings.Fields(out)
	for i := 0; i+1 < len(f); i += 2 {
		val := f[i+1]
		var x uint64
		switch {
		case strings.HasPrefix(val, "#x"):
			fmt.Sscanf(val[2:], "%x", &x)
		case strings.HasPrefix(val, "#b"):
			fmt.Sscanf(val[2:], "%b", &x)
		case val == "true":
			x = 1
		case val == "false":
			x = 0
		case val == "_": // (_ bvN w)
			fmt.Sscanf(f[i+2], "bv%d", &x)
			i += 2
		}
		res[f[i]] = x
	}
	return res
}

// strideSample picks at most n samples spread evenly over all of them (quick tier: n is small and this is a prefix-like
// spread; thorough: caps the sequential re-deciding work).
func strideSample(all []querySample, n int) []querySample {
	if len(all) <= n {
		return all
	}
	out := make([]querySample, 0, n)
	for i := 0; i < n; i++ {
		out = append(out, all[i*len(all)/n])
	}
	return out
}

// crossCheckPar splits the samples over up to 8 solver processes.
func crossCheckPar(samples []querySample, bin []string, timeoutMs int) (checked int, disagreements []string) {
	w := 8
	if len(samples) < 16 {
		return crossCheck(samples, bin, timeoutMs)
	}
	type res struct {
		c int
		d []string
	}
	ch := make(chan res, w)
	for k := 0; k < w; k++ {
		part := samples[k*len(samples)/w : (k+1)*len(samples)/w]
		go func() {
			c, d := crossCheck(part, bin, timeoutMs)
			ch <- res{c, d}
		}()
	}
	for k := 0; k < w; k++ {
		r := <-ch
		checked += r.c
		disagreements = append(disagreements, r.d...)
	}
	return
}

// crossCheck re-decides the sampled queries with another solver binary; returns number checked and disagreements.
func crossCheck(samples []querySample, bin []string, timeoutMs int) (checked int, disagreements []string) {
	if len(samples) == 0 {
		return 0, nil
	}
	cmd := exec.Command(bin[0], bin[1:]...)
	in, _ := cmd.StdinPipe()
	outp, _ := cmd.StdoutPipe()
	if err := cmd.Start(); err != nil {
		return 0, []string{"cannot start " + bin[0] + ": " + err.Error()}
	}
	out := bufio.NewReader(outp)
	defer func() { in.Close(); cmd.Process.Kill(); cmd.Wait() }()
	for i, q := range samples {
		io.WriteString(in, "(reset)\n")
		if strings.Contains(bin[0], "z3") {
			io.WriteString(in, fmt.Sprintf("(set-option :timeout %d)\n", timeoutMs))
		}
		io.WriteString(in, q.script)
		l, err := out.ReadString('\n')
		if err != nil {
			disagreements = append(disagreements, fmt.Sprintf("sample %d: solver died", i))
			return
		}
		l = strings.TrimSpace(l)
		if l == "unknown" || l == "timeout" {
			continue
		}
		checked++
		if l != q.result {
			disagreements = append(disagreements, fmt.Sprintf("sample %d: primary=%s %s=%s", i, q.result, bin[0], l))
		}
	}
	return
}
