#!/bin/bash
# mkseedwt.sh <dir>: scratch worktree of /repo's HEAD for a seeding sub-agent, with the _kit/vamtest.sh wrapper
# (stub libvulkan, -modfile resolving memutils to the worktree's own memutils, full_bench_test.go blanked out).
set -e
wt=$1
git -C /repo worktree remove --force $wt 2>/dev/null || true
git -C /repo worktree add -q --detach $wt HEAD
mkdir -p $wt/_kit $wt/_seed
[ -f /verif/build/libvulkan.so ] || (cd /verif && ./setup.sh >/dev/null)
cp /verif/build/libvulkan.so $wt/_kit/
cp $wt/vam/go.mod $wt/_kit/alt.mod
echo "replace github.com/vkngwrapper/arsenal/memutils => $wt/memutils" >> $wt/_kit/alt.mod
cat $wt/vam/go.sum $wt/memutils/go.sum > $wt/_kit/alt.sum
echo "package vam_test" > $wt/_kit/empty_test.go
echo "{\"Replace\":{\"$wt/vam/full_bench_test.go\":\"$wt/_kit/empty_test.go\"}}" > $wt/_kit/overlay.json
cat > $wt/_kit/vamtest.sh <<EOS
#!/bin/bash
export PATH=/opt/veriftools/go1.26.8/bin:\$PATH GOPROXY=off GOSUMDB=off GOTOOLCHAIN=local
cd $wt/vam
CGO_LDFLAGS="-L$wt/_kit -Wl,-rpath,$wt/_kit" GOFLAGS="-mod=mod -modfile=$wt/_kit/alt.mod" exec go test -vet=off -count=1 -overlay $wt/_kit/overlay.json "\$@"
EOS
chmod +x $wt/_kit/vamtest.sh
echo ready $wt
