#!/usr/bin/env python3
"""Generates MANIFEST.json from checks.json and the tables below."""
import json
checks = json.load(open('/verif/checks.json'))
props = [json.loads(l) for l in open('/verif/properties.jsonl')]

TEXT = {
 "C01": ("model_checking", "Bounded symbolic model checking of the real TLSF and linear code: every path of every bounded history / recipe state is explored and the exclusivity, bounds, alignment and size assertions are decided by the SMT solver for all 64-bit sizes, alignments and strategies at once. The property quantifies over all inputs, which no concrete test can; what remains bounded is the shape (number of operations / regions)."),
 "C03": ("model_checking", "Same exploration as C01 with the bookkeeping oracle after every step (tiling, counters, statistics, Validate executed symbolically)."),
 "C05": ("model_checking", "Full-width solver lemmas for the size->list mapping (no shape bound) plus a differential check of the search against an exhaustive scan of the region list on recipe states, all request parameters symbolic."),
 "C06": ("model_checking", "Symbolic exploration of histories and recipes; frees in every position (front/back/middle, lower/upper stack, both ring halves, compaction) with 'nothing else changed' snapshots decided by the solver."),
 "C13": ("model_checking", "Every public call of the block algorithms runs inside a panic catcher on every explored state with symbolic arguments from 1 to beyond the block size; refusals are compared with a full snapshot."),
 "C16": ("model_checking", "Lock-step differential check of the linear algorithm against an independent reference model on symbolic histories and recipe states (stack, double stack, ring buffer, compaction)."),
 "C17": ("model_checking", "Handle look-ups, user-data updates and both enumeration interfaces are checked after every step of symbolic histories / recipes."),
 "C18": ("model_checking", "Coalescing assertion after every step; emptied block compared with a fresh block (observables, internal state modulo symmetries, lock-step requests)."),
 "C02": ("model_checking", "A real Allocator on a simulated device is driven through bounded histories of public API calls and complete defragmentation runs with symbolic sizes and alignments; after every call each live Allocation is compared with the device's ground truth by the solver."),
 "C04": ("model_checking", "Same histories; the allocator's statistics and heap budget figures are compared with the simulated device's live objects after every call (and, through C10's harness, after every injected failure)."),
 "C08": ("model_checking", "Every driver call made during scripted map/unmap/allocate/free/flush/defragment sequences (constructed to cross the mapping-hysteresis thresholds) is validated by the simulated device against the Vulkan valid-usage rules named in the property; the minimum-alignment kernel is decided at full width."),
 "C09": ("model_checking", "vam's real granularity handler under both real block algorithms; page disjointness of conflicting kinds decided by the solver for all sizes and alignments within bounded histories."),
 "C10": ("fault_enumeration", "Fault decisions are symbolic Booleans at every fallible driver call, so the solver covers every fault position of every explored operation; after each failure the no-trace conditions are asserted against device ground truth."),
 "C11": ("model_checking", "Histories on devices with small heap limits and allocation-count limits and on custom pools; limits and mode flags are asserted after every call. The concurrent race clause is not covered."),
 "C12": ("exploration", "Reduced strength, stated as such: bounded schedule exploration (two goroutines, seven operation pairs from the statement, at most two pre-emptions) inside the symbolic executor with a happens-before race monitor and deadlock detection; races are confirmed natively with the Go race detector. The property's quantifier (all interleavings of arbitrary concurrent use) is not reached."),
 "C14": ("model_checking", "Pointers returned by Map are compared with the simulated device's base address plus the allocation's current offset across hysteresis-crossing scripts and defragmentation moves; mapping balance is checked after every event."),
 "C19": ("model_checking", "findMemoryTypeIndex / findMemoryPreferences / calcAllocationParams are executed on a symbolic memory type table and compared clause by clause with a specification written from the property text (tables of 3 to 6 types)."),
 "C20": ("model_checking", "Histories followed by freeing everything (or deliberately leaking one allocation) and tearing down pools and allocator on the simulated device."),
 "C07": ("model_checking", "The real defragmentation planner is driven over real TLSF metadata with symbolic sizes, both algorithms and all copy/ignore/destroy decisions; allocator invariants, reservation of source and destination, source identity and per-move outcomes are decided by the solver at every pass boundary."),
 "C15": ("model_checking", "Forward progress of every proposed move, per-pass limits with symbolic limit values, pass statistics, and equivalence of a reused and a fresh context are asserted on the same symbolic runs. Termination itself is not decided (stated in the evidence)."),
}
NOTE = "Trusted: the symgo engine (own SSA interpreter, validated on every run by native replay of sampled paths), go/ssa, z3 4.8.12 (a sample of queries re-decided by z3 5.1.0 and cvc5), the harness oracles. Environment stubs are listed in DESIGN.md section 2.5. Bounds are stated in the evidence file; everything outside them is outside the claim."

man = {
 "version": 1,
 "setup_cmd": "./setup.sh",
 "hooks": {"guard": "verif_harness", "enable": "harness files live in /verif/harness and are injected with go/packages overlays (symbolic run) and go test -overlay -tags=verif_harness (native replay); /repo carries no hook code", "baseline_off_cmd": "./runtests.sh", "source_commits": [], "add_only": True},
 "engines": [{"name": "symgo", "path": "engine", "serves_properties": sorted(checks.keys()), "kind_free_text": "symbolic executor for Go SSA (go/ssa) with an SMT back end (z3), written for this task; stateless re-execution DFS, native replay of counterexamples"}],
 "checks": [], "not_applicable": [],
 "notes": "exit codes: 0 property held on everything explored, 1 VIOLATION (natively reproduced), 2 inconclusive (solver unknown, time limit, encoder disagreement, vacuity). Fix commits for genuine defects are listed in known_findings.txt.",
}
NA = json.load(open('/verif/not_applicable.json'))
for p in props:
    pid = p["id"]
    if pid in checks:
        lvl, text = TEXT[pid]
        man["checks"].append({
            "property_id": pid, "quick_cmd": f"./check {pid} quick", "thorough_cmd": f"./check {pid} thorough",
            "evidence_file": f"evidence/{pid}.json", "replay_cmd_template": "./check --replay {path}", "engine": "symgo",
            "level_claimed": {"category": lvl, "text": text, "design_ref": "DESIGN.md section 5 (" + pid + ")"},
            "level_note": NOTE, "technique": ("schedule exploration in the SMT-based symbolic executor (scheduler choices as decisions, happens-before race monitor), native confirmation with go test -race" if pid == "C12" else "SMT-based symbolic execution of the real Go code (go/ssa -> bit-vector SMT, z3), bounded shapes, native replay")})
    else:
        man["not_applicable"].append({"property_id": pid, "reason": NA.get(pid, "no solver-based check has been built for this property yet (work in progress; see DESIGN.md)")})
json.dump(man, open('/verif/MANIFEST.json', 'w'), indent=1)
print(len(man["checks"]), "checks,", len(man["not_applicable"]), "not applicable")
