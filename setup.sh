#!/bin/bash
# Builds the verification framework from files on disk only (offline).
set -e
cd "$(dirname "$0")"
export PATH=/opt/veriftools/go1.26.8/bin:$PATH GOFLAGS=-mod=mod GOPROXY=off GOSUMDB=off GOTOOLCHAIN=local GOWORK=off
mkdir -p build evidence replays
(cd engine && go build -o ../build/symgo .)
# stub libvulkan: vkngwrapper/core's loader package links with -lvulkan; the allocator never calls it (the harness
# supplies a simulated device), the stub only lets test binaries that import vam link in this sandbox.
if [ ! -f build/libvulkan.so ]; then
  echo 'void vkGetInstanceProcAddr(void){}' > build/vkstub.c
  gcc -shared -fPIC -o build/libvulkan.so build/vkstub.c
fi
echo "setup ok: $(./build/symgo 2>&1 | head -1)"
