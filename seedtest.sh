#!/bin/bash
# seedtest.sh <id> <worktree> <demo-rel-path> <test-run-regex> "<check ids>"
# Confirms a seeded change in its scratch worktree (existing suite passes with it, demo fails with it and passes
# without it), stores it under /verif/seeded/<id>/, then applies it to /repo, runs the given checks and reverts.
set -u
id=$1; wt=$2; demo=$3; rx=$4; checks=$5
export PATH=/opt/veriftools/go1.26.8/bin:$PATH GOFLAGS=-mod=mod GOPROXY=off GOSUMDB=off GOTOOLCHAIN=local
seed=/verif/seeded/$id; mkdir -p $seed
cp $wt/_seed/patch.diff $seed/patch.diff
cp $wt/_seed/$(basename $demo) $seed/ 2>/dev/null || cp $wt/_seed/*_test.go $seed/
cp $wt/_seed/notes.md $seed/notes.md 2>/dev/null
cd $wt && git checkout -q -- . && git clean -fdq -e _seed
pkgdir=$(dirname $demo)
git apply $seed/patch.diff || { echo "PATCH DOES NOT APPLY"; exit 1; }
suite=$( (cd memutils && go test -vet=off -count=1 ./... 2>&1) | grep -c "^ok" )
suitefail=$( (cd memutils && go test -vet=off -count=1 ./... 2>&1) | grep -c "^FAIL\|^---" )
cp $seed/$(basename $demo) $wt/$demo
with=$( (cd memutils && go test -vet=off -count=1 -run "$rx" ./${pkgdir#memutils/} 2>&1) | tail -1 )
git checkout -q -- . 
without=$( (cd memutils && go test -vet=off -count=1 -run "$rx" ./${pkgdir#memutils/} 2>&1) | tail -1 )
rm -f $wt/$demo
echo "suite ok-packages=$suite failures=$suitefail | demo with change: $with | demo without: $without"
# now run the checks against the change: on a scratch copy (VERIF_REPO, default: parallel-safe) or on /repo itself (ONREPO=1)
cd $wt && git apply $seed/patch.diff
target=$wt
if [ "${ONREPO:-0}" = 1 ]; then
  cd /repo && git status --short | grep -q . && { echo "/repo not clean"; exit 1; }
  git -C /repo apply $seed/patch.diff || { echo "patch does not apply to /repo"; exit 1; }
  target=/repo
fi
res=""
for c in $checks; do
  ev=$(mktemp -d /var/tmp/seedev.XXXX)
  out=$(cd /verif && VERIF_REPO=$target VERIF_EVIDENCE_DIR=$ev timeout 1800 ./check $c quick 2>&1)
  rc=$?
  v=$(echo "$out" | grep -c "^VIOLATION")
  res="$res $c:rc=$rc,violations=$v"
  echo "$out" | grep "^VIOLATION\|^  entry\|^INCONCLUSIVE" | head -6
  rm -rf $ev
done
[ "${ONREPO:-0}" = 1 ] && git -C /repo checkout -- .
cd $wt && git checkout -q -- .
echo "RESULT $id:$res"
python3 - "$id" "$suite" "$suitefail" "$with" "$without" "$res" "$demo" "$rx" <<'PY'
import json,sys
id,suite,sf,w,wo,res,demo,rx=sys.argv[1:]
meta={"id":id,"property":id.split('-')[0],"existing_suite_with_change":{"ok_packages":int(suite),"failures":int(sf)},
 "demo_with_change":w,"demo_without_change":wo,"demo_location":demo,"demo_run":"go test -run '%s'"%rx,"checks_quick":res.strip()}
p='/verif/seeded/%s/meta.json'%id
try: old=json.load(open(p))
except Exception: old={}
old.update(meta); json.dump(old,open(p,'w'),indent=1)
PY
